"""C11 -- acknowledgement duty (w, t2) and supervision timers (t1, t3), both roles.
proof:  coq/Properties/C11.v (the four blocks of handleTimeouts + the w rule of handleTcpConnection, server)
tie:    extracted server model vs real server on virtual-clock scripts (trace equality); the client is run
        with its real thread on the same simulated HAL
oracle: deadline bookkeeping written from IEC 60870-5-104 5.2 in Python, evaluated on the C traces of both roles"""
import json
from pathlib import Path
from vf import core, apci, runner
from props import clientlib, c07

LEVEL = "proof"
T0 = 1000000


def harnesses():
    return c07.harness(), core.build_harness("h_cs104c", ["h_cs104c.c"], whitebox_of=("cs104_connection",))


def prebuild():
    harnesses()
    c07.model()


def params(rng, quick, role="client"):
    k = rng.choice([1, 2, 8, 12, 100])
    w = rng.choice([1, 2, 8, 12])
    if rng.chance(3, 4):
        t2 = rng.choice([1, 2, 5, 10])
        t1 = t2 + rng.choice([1, 3, 5, 10])
        t3 = t1 + rng.choice([1, 5, 10, 100])
    else:
        t1, t2, t3 = rng.choice([1, 2, 10, 15, 255]), rng.choice([1, 2, 10, 20, 255]), rng.choice([2, 10, 20, 255])
    return dict(k=k, w=w, t1=t1, t2=t2, t3=t3)


def adv_choices(p):
    base = [1, 10, 500, 999, 1000, 1001]
    for t in (p["t1"], p["t2"], p["t3"]):
        base += [t * 1000 - 1, t * 1000, t * 1000 + 1, t * 500]
    return [x for x in base if x > 0]


def gen_server(rng, p, n):
    lines = ["cfg k=%d w=%d t1=%d t2=%d t3=%d handlers=65 burst=%d bsize=4 lowq=300 highq=60" % (p["k"], p["w"], p["t1"], p["t2"], p["t3"], rng.below(3)),
             "start", "connect c0 10.0.0.1:1000", "tick", "rx c0 " + apci.STARTDT_ACT.hex(), "tick"]
    ci, e, q = 0, 0, 0
    advs = adv_choices(p)
    for _ in range(n):
        r = rng.below(100)
        if r < 30:
            lines += ["adv %d" % rng.choice(advs), "tick"]
        elif r < 50:
            q += 1
            lines += ["rxi c%d %s" % (ci, c07.peer_asdu(q).hex()), "tick"]
        elif r < 65:
            e += 1
            lines += ["enq " + c07.ev_asdu(e).hex(), "tick"]
        elif r < 78:
            lines += ["rxs c%d %d" % (ci, -rng.below(2)), "tick"]
        elif r < 84:
            lines += ["rx c%d %s" % (ci, apci.TESTFR_CON.hex()), "tick"]
        elif r < 88:
            lines += ["rx c%d %s" % (ci, apci.TESTFR_ACT.hex()), "tick"]
        elif r < 92:
            lines += ["rxi c%d %s" % (ci, c07.IC.hex()), "tick 2"]
        elif r < 95:
            lines += ["rx c%d %s" % (ci, apci.STOPDT_ACT.hex()), "tick", "rx c%d %s" % (ci, apci.STARTDT_ACT.hex()), "tick"]
        else:
            lines += ["tick 2"]
        if rng.chance(1, 25) and ci < 12:
            lines += ["peerclose c%d" % ci, "tick 2"]
            ci += 1
            lines += ["connect c%d 10.0.0.1:%d" % (ci, 1000 + ci), "tick", "rx c%d %s" % (ci, apci.STARTDT_ACT.hex()), "tick"]
    lines.append("tick 2")
    return lines


def gen_client(rng, p, n):
    lines = ["cfg k=%d w=%d t1=%d t2=%d t3=%d" % (p["k"], p["w"], p["t1"], p["t2"], p["t3"]), "connect", "startdt", "step", "rx " + apci.STARTDT_CON.hex(), "step"]
    q, sidn = 0, 0
    advs = adv_choices(p)
    for _ in range(n):
        r = rng.below(100)
        if r < 30:
            lines += ["adv %d" % rng.choice(advs), "step"]
        elif r < 50:
            q += 1
            if rng.chance(1, 6):
                lines.append("cbsend 1")        # the application answers from inside the ASDU handler
            lines += ["rxi %s" % c07.peer_asdu(q).hex(), "step"]
        elif r < 65:
            sidn += 1
            lines += ["send " + apci.asdu(45, 6, 1, bytes([sidn & 255, sidn >> 8, 0, 1])).hex()]
        elif r < 78:
            lines += ["rxs %d" % -rng.below(2), "step"]
        elif r < 86:
            lines += ["rx " + apci.TESTFR_CON.hex(), "step"]
        elif r < 90:
            lines += ["rx " + apci.TESTFR_ACT.hex(), "step"]
        elif r < 94:
            lines += ["stopdt", "step", "rx " + apci.STOPDT_CON.hex(), "step", "startdt", "step", "rx " + apci.STARTDT_CON.hex(), "step"]
        else:
            lines += ["step 2"]
        if rng.chance(1, 30):
            lines += ["close", "connect", "startdt", "step", "rx " + apci.STARTDT_CON.hex(), "step"]
    lines.append("step")
    return lines


class Ref:
    """deadline bookkeeping for one connection (either role), fed at command granularity"""

    def __init__(self, p, now, role):
        self.p, self.role = p, role
        self.rx_unacked, self.first_unacked = 0, None
        self.rx_times, self.rx_acked = [], 0      # arrival times of received I-frames not covered by any N(R) sent so far; N(R) reached
        self.sent = []            # send times of I-frames not yet acknowledged by the peer
        self.sent_total, self.acked_total = 0, 0
        self.last_rx = now
        self.test_pending, self.test_sent = False, None
        self.alive = True
        self.other_close_reason = False
        self.problems = []

    def received(self, now, frame):
        a = apci.parse_apdu(frame)
        self.last_rx = now
        if a["kind"] == "I":
            if a["ns"] != (self.rx_acked + len(self.rx_times)) % 32768:
                self.other_close_reason = True       # out of sequence: not accepted, the station closes because of it
                return
            self.rx_times.append(now)
            self.rx_unacked, self.first_unacked = len(self.rx_times), self.rx_times[0]
            self._ack(a["nr"])
        elif a["kind"] == "S":
            self._ack(a["nr"])
        elif a["kind"] == "U" and a["u"] == 0x83:
            self.test_pending = False

    def _ack(self, nr):
        # nr is absolute modulo 2^15 of frames sent on this connection (counters start at 0 in these scripts)
        n = (nr - self.acked_total) % 32768
        if n <= len(self.sent):
            self.sent = self.sent[n:]
            self.acked_total += n
        else:
            self.other_close_reason = True

    def transmitted(self, now, frames):
        acked = False
        testfr = False
        for f in frames:
            a = apci.parse_apdu(f)
            if a["kind"] == "I":
                self.sent.append(now)
                self.sent_total += 1
            if a["kind"] in ("I", "S"):
                # what an I- or S-format APDU acknowledges is what its N(R) says, not the fact that it was sent
                k = (a["nr"] - self.rx_acked) % 32768
                if 0 < k <= len(self.rx_times):
                    self.rx_times = self.rx_times[k:]
                    self.rx_acked = (self.rx_acked + k) % 32768
                acked = acked or not self.rx_times
            elif a["kind"] == "U" and a["u"] == 0x43:
                testfr = True
        self.rx_unacked, self.first_unacked = len(self.rx_times), (self.rx_times[0] if self.rx_times else None)
        return acked, testfr

    def end_of_step(self, now, frames, closed_now):
        p = self.p
        acked, testfr = self.transmitted(now, frames)
        if self.alive and closed_now and self.rx_times and self.role == "client":
            self.problems.append(("ack-before-close", "the station closed the connection on its own initiative with %d received I-frames not acknowledged (last N(R) sent: %d)" % (len(self.rx_times), self.rx_acked)))
        if self.alive and not closed_now:
            if self.rx_unacked >= p["w"]:
                self.problems.append(("w", "%d received I-frames unacknowledged after a step although w=%d" % (self.rx_unacked, p["w"])))
                self.rx_times, self.rx_acked, self.rx_unacked = [], (self.rx_acked + self.rx_unacked) % 32768, 0
            if self.rx_unacked > 0 and now > self.first_unacked and now - self.first_unacked >= p["t2"] * 1000:
                self.problems.append(("t2", "received I-frame unacknowledged %d ms after it arrived, t2=%d s" % (now - self.first_unacked, p["t2"])))
                self.rx_times, self.rx_acked, self.rx_unacked = [], (self.rx_acked + self.rx_unacked) % 32768, 0
            if not self.test_pending and not testfr and now > self.last_rx + p["t3"] * 1000 and self.role == "server":
                self.problems.append(("t3", "no TESTFR act although nothing was received for %d ms, t3=%d s" % (now - self.last_rx, p["t3"])))
                self.last_rx = now
        if testfr:
            self.test_pending, self.test_sent = True, now
            if self.role == "client":
                self.last_rx = now       # the client restarts t3 when it sends TESTFR act
        # t1 deadlines
        due = False
        if self.sent and now > self.sent[0] and now - self.sent[0] >= p["t1"] * 1000:
            due = True
        if self.test_pending and self.test_sent is not None and now > self.test_sent + p["t1"] * 1000:
            due = True
        return due


def analyse(ck, role, sid, lines, out, p):
    """walk script and output together: every tick/step command ends in a recognisable output block"""
    now = T0
    refs = {}
    cur = None
    oi = 0
    problems = []
    # group output per command: server `tick` blocks end with `open N`; client commands are flushed individually,
    # so for the client we re-run nothing and instead align on command order using the known shape: only `step` produces
    # tx/ev/cb lines besides `send`/`startdt`/`stopdt`/`close`/`connect`.
    if role == "server":
        blocks, curb = [], []
        for l in out:
            curb.append(l)
            if l.startswith("open "):
                blocks.append(curb)
                curb = []
        bi = 0
        pending_rx = []
        peer_ns, peer_seen = {}, {}
        due_since = {}
        for l in lines:
            t = l.split()
            if t[0] == "adv":
                now += int(t[1])
            elif t[0] == "connect":
                ci = int(t[1][1:])
                peer_ns[ci], peer_seen[ci] = 0, 0
            elif t[0] == "rx":
                pending_rx.append((int(t[1][1:]), bytes.fromhex(t[2])))
            elif t[0] == "rxi":
                ci = int(t[1][1:])
                pending_rx.append((ci, apci.i_frame(peer_ns[ci], peer_seen[ci], bytes.fromhex(t[2]))))
                peer_ns[ci] = (peer_ns[ci] + 1) % 32768
            elif t[0] == "rxs":
                ci = int(t[1][1:])
                d = int(t[2]) if len(t) > 2 else 0
                pending_rx.append((ci, apci.s_frame((peer_seen[ci] + d) % 32768)))
            elif t[0] == "peerclose":
                ci = int(t[1][1:])
                if ci in refs:
                    refs[ci].other_close_reason = True
            elif t[0] == "tick":
                n = int(t[1]) if len(t) > 1 else 1
                if bi >= len(blocks):
                    break
                blk = blocks[bi]
                bi += 1
                for ol in blk:
                    q = ol.split()
                    if q[0] == "ev" and q[2] == "OPENED":
                        refs[int(q[1][1:])] = Ref(p, now, "server")
                # frames processed by this command: one per tick iteration, in order
                for _ in range(n):
                    if pending_rx:
                        ci, fr = pending_rx.pop(0)
                        if ci in refs and refs[ci].alive:
                            refs[ci].received(now, fr)
                txs = {}
                for ol in blk:
                    q = ol.split()
                    if q[0] == "tx":
                        ci = int(q[1][1:])
                        fl = apci.split_stream(bytes.fromhex(q[2]))[0]
                        txs[ci] = fl
                        peer_seen[ci] = (peer_seen.get(ci, 0) + sum(1 for f in fl if apci.parse_apdu(f)["kind"] == "I")) % 32768
                closed = {int(q.split()[1][1:]) for q in blk if q.startswith("ev ") and q.split()[2] == "CLOSED"}
                for ci, r in refs.items():
                    if not r.alive:
                        continue
                    due = r.end_of_step(now, txs.get(ci, []), ci in closed)
                    if ci in closed:
                        r.alive = False
                        if not r.other_close_reason and ci not in due_since and not due:
                            r.problems.append(("closed-early", "connection closed although no t1 deadline had been reached and the peer did nothing wrong"))
                    elif due:
                        due_since.setdefault(ci, 0)
                        due_since[ci] += 1
                        if due_since[ci] > 2:
                            r.problems.append(("t1", "connection still open %d ticks after a t1 deadline (oldest unacknowledged I-frame or TESTFR act), t1=%d s" % (due_since[ci], p["t1"])))
                            due_since[ci] = -1000
        for ci, r in refs.items():
            problems += r.problems
    else:
        # client: the harness ends the output of every script line with a "." marker
        blocks, curb = [], []
        for l in out:
            if l == ".":
                blocks.append(curb)
                curb = []
            else:
                curb.append(l)
        r = None
        peer_ns = peer_seen = 0
        due_ticks = 0
        pend = []
        for l, got in zip(lines, blocks):
            t = l.split()
            fl = apci.split_stream(b"".join(bytes.fromhex(x.split()[1]) for x in got if x.startswith("tx ")))[0]
            nI = sum(1 for f in fl if apci.parse_apdu(f)["kind"] == "I")
            if t[0] == "adv":
                now += int(t[1])
            elif t[0] == "connect":
                if r:
                    problems += r.problems
                r = Ref(p, now, "client") if "ev OPENED" in got else None
                peer_ns = peer_seen = 0
                due_ticks = 0
                pend = []
            elif t[0] == "rx":
                pend.append(bytes.fromhex(t[1]))
            elif t[0] == "rxi":
                dns = int(t[2]) if len(t) > 2 else 0          # rxi <asdu> [dns] [dnr]: deviation from the right N(S) / N(R)
                dnr = int(t[3]) if len(t) > 3 else 0
                pend.append(apci.i_frame((peer_ns + dns) % 32768, (peer_seen + dnr) % 32768, bytes.fromhex(t[1])))
                if dns == 0:
                    peer_ns = (peer_ns + 1) % 32768
            elif t[0] == "rxs":
                d = int(t[1]) if len(t) > 1 else 0
                pend.append(apci.s_frame((peer_seen + d) % 32768))
            elif t[0] in ("startdt", "stopdt", "send", "ic", "rd"):
                if r and r.alive:
                    if t[0] == "stopdt" and r.rx_unacked > 0 and not any(apci.parse_apdu(f)["kind"] == "S" for f in fl):
                        r.problems.append(("ack-before-stop", "STOPDT act sent with %d received I-frames unacknowledged" % r.rx_unacked))
                    acked, _ = r.transmitted(now, fl)
            elif t[0] == "close":
                if r and r.alive:
                    if r.rx_unacked > 0 and not any(apci.parse_apdu(f)["kind"] in ("S", "I") for f in fl):
                        r.problems.append(("ack-before-close", "connection closed by the application with %d received I-frames unacknowledged" % r.rx_unacked))
                    problems += r.problems
                r = None
                pend = []
            elif t[0] == "step":
                n = int(t[1]) if len(t) > 1 else 1
                if r and r.alive:
                    for _ in range(n):
                        if pend:
                            r.received(now, pend.pop(0))
                    closed = any(x in ("ev CLOSED", "ev FAILED") for x in got)
                    testfr = any(apci.parse_apdu(f).get("u") == 0x43 for f in fl)
                    if not r.test_pending and not testfr and not closed and now > r.last_rx + p["t3"] * 1000:
                        r.problems.append(("t3", "client sent no TESTFR act although nothing was received for %d ms, t3=%d s" % (now - r.last_rx, p["t3"])))
                        r.last_rx = now
                    due = r.end_of_step(now, fl, closed)
                    if closed:
                        r.alive = False
                        if not r.other_close_reason and not due and due_ticks == 0:
                            r.problems.append(("closed-early", "client closed the connection although no t1 deadline had been reached"))
                    elif due:
                        due_ticks += 1
                        if due_ticks > 1:
                            r.problems.append(("t1", "client connection still open %d steps after a t1 deadline at t=%d ms (oldest unacked I sent %s, TESTFR act sent %s), t1=%d s" % (due_ticks, now - T0, r.sent[:1], r.test_sent if r.test_pending else None, p["t1"])))
                            due_ticks = -1000
                else:
                    pend = []
            peer_seen = (peer_seen + nI) % 32768
        if r:
            problems += r.problems
    return problems


def run_switchover(ck, rng, quick, hsrv):
    """a connection that the SERVER deactivates (another connection of the redundancy group sends STARTDT act) still owes the
    acknowledgement of the I-format APDUs it received: it has to arrive within t2"""
    scripts, meta = [], {}
    for i in range(12 if quick else 150):
        mode = rng.choice([0, 2])
        w = rng.choice([4, 8, 12])
        t2 = rng.choice([1, 2, 5, 10])
        t1 = t2 + rng.choice([3, 5, 10])
        n = rng.range(1, w - 1)
        lines = ["cfg k=12 w=%d t1=%d t2=%d t3=%d mode=%d handlers=64 lowq=20 highq=10" % (w, t1, t2, t1 + 50, mode)] + (["group -"] if mode == 2 else []) + \
                ["start", "connect c0 10.0.0.1:1000", "tick", "rx c0 " + apci.STARTDT_ACT.hex(), "tick"]
        for q in range(1, n + 1):
            lines += ["rxi c0 " + c07.peer_asdu(q).hex(), "tick"]
        pre = rng.choice([0, 1, t2 * 500])
        lines += ["adv %d" % pre, "tick"] if pre else []
        lines += ["connect c1 10.0.0.2:1001", "tick", "rx c1 " + apci.STARTDT_ACT.hex(), "tick 2", "adv %d" % (t2 * 1000 - pre + 1), "tick 2"]
        sid = "sw%d" % i
        scripts.append((sid, lines)); meta[sid] = (mode, w, t2, n)
    rs = runner.run_batch(hsrv, scripts, timeout=3600)
    for sid, lines in scripts:
        mode, w, t2, n = meta[sid]
        ck.evaluations += 1
        o = rs.get(sid, dict(out=[], crash=None))
        if o["crash"]:
            ck.fail("input", "crash:%s:%s" % (o["crash"]["kind"], o["crash"]["site"]), "server aborted: %s at %s" % (o["crash"]["kind"], o["crash"]["site"]), {"script": lines, "role": "server", "stderr": o["crash"]["text"]})
            continue
        if any(l.split()[:3] == ["ev", "c0", "CLOSED"] for l in o["out"]):
            continue
        acked = 0
        for l in o["out"]:
            if l.startswith("tx c0 "):
                for f in apci.split_stream(bytes.fromhex(l.split()[2]))[0]:
                    a = apci.parse_apdu(f)
                    if a["kind"] in ("S", "I"):
                        acked = max(acked, a["nr"])
        if acked < n:
            ck.fail("input", "oracle:t2:server", "server (mode %d, w=%d, t2=%d): connection c0 received %d I-format APDUs, was deactivated by the server when c1 sent STARTDT act, and %d ms after the first of them only N(R)=%d has been acknowledged on c0" % (
                mode, w, t2, n, t2 * 1000 + 1, acked), {"script": lines, "role": "server", "observed": [l[:80] for l in o["out"] if l.startswith(("tx c0", "ev "))][-8:]})
        ck.nontriv(("switchover", mode, w, t2, n))
    ck.count("switchover_scripts", len(scripts))


def run_reconfig(ck, rng, quick, hsrv):
    """"the configured k, w, t2 values are the ones actually used": the application changes the APCI parameters between two connections
    (live, or with the server stopped in between); the connection accepted afterwards - in a slot that served the earlier connection -
    works with the NEW values: exactly k I-format APDUs go out unacknowledged, the S-format acknowledgement comes with the w-th received
    I-format APDU and not before, or t2 after the first one"""
    scripts, meta = [], {}
    for i in range(16 if quick else 200):
        k1, k2 = rng.choice([(12, 3), (8, 2), (3, 12), (5, 1), (2, 6), (12, 11)])
        w1, w2 = rng.choice([(8, 3), (2, 6), (8, 8), (4, 1), (3, 5)])
        t2a, t2b = rng.choice([(10, 2), (2, 7), (5, 5), (10, 1)])
        how = "live" if i % 2 == 0 else "stopped"
        lines = ["cfg k=%d w=%d t1=%d t2=%d t3=200 handlers=64 burst=0 lowq=300 highq=20" % (k1, w1, t2a + 20, t2a),
                 "start", "connect c0 10.0.0.1:1000", "tick", "rx c0 " + apci.STARTDT_ACT.hex(), "tick"]
        e = 0
        for _ in range(k1 + 2):
            e += 1
            lines.append("enq " + c07.ev_asdu(e).hex())
        lines += ["tick %d" % (k1 + 3), "rxs c0", "tick %d" % (k1 + 3), "rxs c0", "tick 2"]
        for q in range(1, rng.range(0, w1 - 1) + 1):
            lines += ["rxi c0 " + c07.peer_asdu(q).hex(), "tick"]       # leaves T2 running when the connection ends
        lines += ["peerclose c0", "tick 2"]
        if how == "stopped":
            lines += ["stop"]
        lines += ["cfg k=%d w=%d t1=%d t2=%d t3=200" % (k2, w2, t2b + 20, t2b)]
        if how == "stopped":
            lines += ["start"]
        lines += ["connect c1 10.0.0.1:1001", "tick", "rx c1 " + apci.STARTDT_ACT.hex(), "tick"]
        e1 = e
        for _ in range(k2 + 3):
            e += 1
            lines.append("enq " + c07.ev_asdu(e).hex())
        lines += ["tick %d" % (k2 + 4), "mark A", "rxs c1", "tick %d" % (k2 + 4), "rxs c1", "tick 2", "rxs c1", "tick 2", "mark B"]
        part = rng.chance(1, 2) and w2 > 1
        nrx = (w2 - 1) if part else w2
        for q in range(1, nrx + 1):
            lines += ["rxi c1 " + c07.peer_asdu(100 + q).hex(), "tick"]
        lines += ["mark C"]
        if part:
            lines += ["adv %d" % (t2b * 1000 - 1), "tick", "mark D", "adv 2", "tick 2", "mark E"]
        sid = "rc%d" % i
        scripts.append((sid, lines)); meta[sid] = (k1, k2, w1, w2, t2a, t2b, how, part, nrx)
    rs = runner.run_batch(hsrv, scripts, timeout=3600)
    for sid, lines in scripts:
        k1, k2, w1, w2, t2a, t2b, how, part, nrx = meta[sid]
        ck.evaluations += 1
        o = rs.get(sid, dict(out=[], crash=None))
        if o["crash"]:
            ck.fail("input", "crash:%s:%s" % (o["crash"]["kind"], o["crash"]["site"]), "server aborted: %s at %s" % (o["crash"]["kind"], o["crash"]["site"]), {"script": lines, "role": "server", "stderr": o["crash"]["text"]})
            continue
        # the harness echoes `mark X` lines: cut the c1 traffic at the marks
        seg, cur = {}, "0"
        for l in o["out"]:
            if l.startswith("mark "):
                cur = l.split()[1]
            elif l.startswith("tx c1 "):
                for f in apci.split_stream(bytes.fromhex(l.split()[2]))[0]:
                    seg.setdefault(cur, []).append(apci.parse_apdu(f))
        if any(l.split()[:3] == ["ev", "c1", "CLOSED"] for l in o["out"]):
            ck.fail("input", "oracle:reconfig:server", "server reconfigured %s from (k=%d,w=%d,t2=%d) to (k=%d,w=%d,t2=%d): the connection accepted afterwards was closed by the server" % (how, k1, w1, t2a, k2, w2, t2b),
                    {"script": lines, "role": "server", "observed": [l[:80] for l in o["out"] if l.startswith(("tx c1", "ev "))][-8:]})
            continue
        bad = None
        n_i = sum(1 for a in seg.get("0", []) if a["kind"] == "I")
        if n_i != k2:
            bad = "%d I-format APDUs were sent without acknowledgement on the new connection (%d event ASDUs waiting), the configured k is %d" % (n_i, k2 + 3, k2)
        s_c = [a for a in seg.get("B", []) if a["kind"] == "S"]
        if not bad and part:
            if s_c:
                bad = "an S-format APDU was sent after %d received I-format APDUs, the configured w is %d" % (nrx, w2)
            elif [a for a in seg.get("C", []) if a["kind"] == "S"]:
                bad = "the S-format APDU came %d ms after the first unacknowledged I-format APDU, the configured t2 is %d s" % (t2b * 1000 - 1, t2b)
            elif not [a for a in seg.get("D", []) if a["kind"] == "S"]:
                bad = "no S-format APDU %d ms after the first unacknowledged I-format APDU, the configured t2 is %d s" % (t2b * 1000 + 1, t2b)
        elif not bad:
            if len(s_c) != 1 or s_c[0]["nr"] != w2:
                bad = "after %d received I-format APDUs the server sent %s, the configured w is %d (one S-format APDU with N(R)=%d expected)" % (
                    nrx, ["S(%d)" % a["nr"] for a in s_c] or "no S-format APDU", w2, w2)
        if bad:
            ck.fail("input", "oracle:reconfig:server", "server reconfigured %s from (k=%d,w=%d,t2=%d) to (k=%d,w=%d,t2=%d) between two connections: %s" % (how, k1, w1, t2a, k2, w2, t2b, bad),
                    {"script": lines, "role": "server", "observed": [l[:80] for l in o["out"] if l.startswith(("tx c1", "ev ", "mark"))][-10:]})
        ck.nontriv(("reconfig", k1, k2, w1, w2, t2a, t2b, how, part))
    ck.count("reconfig_scripts", len(scripts))


def run_testfr(ck, rng, quick, hsrv):
    """server: TESTFR act after t3 of silence; closed when it stays unanswered for t1 and not before -- for t3 above, equal to
    and below t1 (the server sends no further TESTFR act while one is pending)"""
    scripts, meta = [], {}
    for i in range(16 if quick else 200):
        t1 = rng.choice([2, 3, 10, 15, 40])
        t3 = rng.choice([1, t1 - 1, t1, t1 + 1, t1 + 20]) if i % 2 else rng.choice([1, 2, 5, 20, 60])
        t3 = max(1, t3)
        parts = rng.choice([1, 2, 3])
        lines = ["cfg k=12 w=8 t1=%d t2=%d t3=%d handlers=64" % (t1, 1, t3), "start", "connect c0 10.0.0.1:1000", "tick", "rx c0 " + apci.STARTDT_ACT.hex(), "tick",
                 "adv %d" % (t3 * 1000 + 1), "tick", "mark1"]
        rem = t1 * 1000 - 1
        for j in range(parts - 1):
            d = rng.range(1, max(1, rem - 1))
            rem -= d
            lines += ["adv %d" % d, "tick"]
        lines += ["adv %d" % rem, "tick 2", "mark2", "adv 2", "tick 3", "mark3"]
        sid = "tf%d" % i
        scripts.append((sid, lines)); meta[sid] = (t1, t3)
    rs = runner.run_batch(hsrv, scripts, timeout=3600)
    for sid, lines in scripts:
        t1, t3 = meta[sid]
        ck.evaluations += 1
        o = rs.get(sid, dict(out=[], crash=None))
        if o["crash"]:
            ck.fail("input", "crash:%s:%s" % (o["crash"]["kind"], o["crash"]["site"]), "server aborted: %s at %s" % (o["crash"]["kind"], o["crash"]["site"]), {"script": lines, "role": "server", "stderr": o["crash"]["text"]})
            continue
        out = o["out"]
        m1 = next((i for i, l in enumerate(out) if l.startswith("? mark1")), None)
        m2 = next((i for i, l in enumerate(out) if l.startswith("? mark2")), None)
        m3 = next((i for i, l in enumerate(out) if l.startswith("? mark3")), None)
        if None in (m1, m2, m3):
            continue
        tx1 = "".join(l.split()[2] for l in out[:m1] if l.startswith("tx c0 "))
        closed = lambda seg: any(l.split()[:3] == ["ev", "c0", "CLOSED"] for l in seg)
        bad = None
        if apci.TESTFR_ACT.hex() not in tx1:
            bad = "no TESTFR act %d ms after the last reception (t3=%d s)" % (t3 * 1000 + 1, t3)
        elif closed(out[:m2]):
            bad = "connection closed %d ms after TESTFR act was sent, before t1=%d s had passed" % (t1 * 1000 - 1, t1)
        elif not closed(out[m2:m3]):
            bad = "connection still open %d ms after an unanswered TESTFR act, t1=%d s (t3=%d s)" % (t1 * 1000 + 1, t1, t3)
        if bad:
            ck.fail("input", "oracle:testfr-t1:server", "server: " + bad, {"script": lines, "role": "server", "observed": [l[:80] for l in out if l.startswith(("tx c0", "ev "))][-8:]})
        ck.nontriv(("testfr", t1, t3))
    ck.count("testfr_scripts", len(scripts))


def run(ck):
    quick = ck.tier == "quick"
    rng = core.Rng(ck.seed)
    ck.trusted = [
        "Coq 8.16.1 kernel; theorems Closed under the global context",
        "Cs104/Server.v transcription of handleTimeouts / handleTcpConnection (server) validated by trace equality with the real server on every virtual-clock script of this run; no Coq model of the client's timer code (client covered by the oracle on the real client only)",
        "virtual clock (Hal_getMonotonicTimeInMs of the simulated HAL); deadlines are observed at tick granularity exactly as the library's loops observe them",
    ]
    ck.rule = ("parameter sets (k,w,t1,t2,t3) over {1,2,8,12,100}x{1,2,8,12}x timers 1..255 s (3/4 with t2<t1<t3); histories of peer I/S/U frames, application sends, "
               "and clock advances drawn from {1,10,500,999,1000,1001, t*1000-1, t*1000, t*1000+1, t*500 for each timer}; non-trivial = distinct (role, parameters, script)")
    ck.coq("C11")
    hsrv, hcli = harnesses()
    try:
        m = c07.model()
    except Exception as e:
        m = None
        ck.fail("correspondence", "model-build", "extracted model does not build: " + str(e)[:300], {"theorem": "extraction"})
    n = 150 if quick else 3000
    ss, cs, meta = [], [], {}
    for i in range(n):
        p = params(rng, quick, "server")
        sid = "s%d" % i
        ss.append((sid, gen_server(rng, p, rng.range(20, 90))))
        meta[sid] = p
        p2 = params(rng, quick)
        cid = "c%d" % i
        cs.append((cid, gen_client(rng, p2, rng.range(20, 90))))
        meta[cid] = p2
    # directed: several I-frames sent at different times inside one t1 window and never acknowledged -- the connection must end t1
    # after the OLDEST of them (client: application sends; server: events), not after the newest
    for i in range(30 if quick else 400):
        p = params(rng, quick)
        p["k"] = max(p["k"], 8)
        if p["t3"] <= p["t1"]:
            p["t3"] = p["t1"] + 5            # keep TESTFR out of the picture
        t1 = p["t1"] * 1000
        gaps = sorted(rng.range(1, max(2, t1 - 2)) for _ in range(rng.range(1, 3)))
        hdr = ["cfg k=%d w=%d t1=%d t2=%d t3=%d" % (p["k"], p["w"], p["t1"], p["t2"], p["t3"])]
        cl = hdr + ["connect", "startdt", "step", "rx " + apci.STARTDT_CON.hex(), "step"]
        sl = hdr + ["start", "connect c0 10.0.0.1:1000", "tick", "rx c0 " + apci.STARTDT_ACT.hex(), "tick"]
        t, n_ = 0, 0
        for g in [0] + gaps:
            if g > t:
                cl += ["adv %d" % (g - t), "step"]; sl += ["adv %d" % (g - t), "tick"]
                t = g
            n_ += 1
            cl += ["send " + apci.asdu(45, 6, 1, bytes([n_, 0, 0, 1])).hex(), "step"]
            sl += ["enq " + c07.ev_asdu(n_).hex(), "tick"]
        for g in (t1 - 1, t1, t1 + 1, t1 + 1000, t1 + gaps[-1] - 1, t1 + gaps[-1] + 1):
            if g > t:
                cl += ["adv %d" % (g - t), "step"]; sl += ["adv %d" % (g - t), "tick"]
                t = g
        cs.append(("ct1_%d" % i, cl)); meta["ct1_%d" % i] = p
        ss.append(("st1_%d" % i, sl)); meta["st1_%d" % i] = p
    # directed, client: (a) the application sends from inside the ASDU handler, then the line is quiet for t2: the frame being handled
    # must be covered by an acknowledgement within t2 all the same; (b) fewer than w I-frames received, then a frame the client
    # rejects (sequence error): it closes on its own initiative, after acknowledging what it had accepted
    for i in range(24 if quick else 300):
        p = params(rng, quick)
        p["w"] = max(p["w"], 4)
        if p["t3"] <= p["t2"]:
            p["t3"] = p["t2"] + 5
        if p["t1"] <= p["t2"]:
            p["t1"] = p["t2"] + 3
        hdr = ["cfg k=%d w=%d t1=%d t2=%d t3=%d" % (p["k"], p["w"], p["t1"], p["t2"], p["t3"]), "connect", "startdt", "step", "rx " + apci.STARTDT_CON.hex(), "step"]
        n0 = rng.range(0, 2)
        cl = list(hdr)
        for j in range(n0):
            cl += ["rxi " + c07.peer_asdu(j + 1).hex(), "step"]
        if i % 2 == 0:
            half = p["t2"] * 500
            cl += ["cbsend 1", "rxi " + c07.peer_asdu(n0 + 1).hex(), "step", "adv %d" % half, "step", "rxi " + c07.peer_asdu(n0 + 2).hex(), "step",
                   "adv %d" % (p["t2"] * 1000 - half - 1), "step", "adv 2", "step", "step"]
        else:
            cl += ["rxi " + c07.peer_asdu(n0 + 1).hex(), "step", "rxi " + c07.peer_asdu(99).hex() + " 3", "step", "step"]
        cs.append(("cdir_%d" % i, cl)); meta["cdir_%d" % i] = p
    # directed, both roles: a quiet line for many t3 periods, every TESTFR act confirmed at once: a TESTFR act at every expiry, the
    # connection stays open however many rounds there are (a counter of test frames that is never reset ends it after a few)
    for i in range(6 if quick else 60):
        p = params(rng, quick)
        if p["t1"] < 2:
            p["t1"] = 2
        hdr = ["cfg k=%d w=%d t1=%d t2=%d t3=%d" % (p["k"], p["w"], p["t1"], p["t2"], p["t3"])]
        cl = hdr + ["connect", "startdt", "step", "rx " + apci.STARTDT_CON.hex(), "step"]
        sl = hdr + ["start", "connect c0 10.0.0.1:1000", "tick", "rx c0 " + apci.STARTDT_ACT.hex(), "tick"]
        for _ in range(rng.range(5, 9)):
            d = p["t3"] * 1000 + rng.choice([1, 2, 500])
            cl += ["adv %d" % d, "step", "rx " + apci.TESTFR_CON.hex(), "step"]
            sl += ["adv %d" % d, "tick", "rx c0 " + apci.TESTFR_CON.hex(), "tick"]
        cs.append(("cidle_%d" % i, cl)); meta["cidle_%d" % i] = p
        ss.append(("sidle_%d" % i, sl)); meta["sidle_%d" % i] = p
    rs = runner.run_batch(hsrv, ss, timeout=3600)
    rc = runner.run_batch(hcli, cs, timeout=3600)
    rm = runner.run_batch(m, ss, timeout=3600) if m else {}
    ndiff = 0
    # client: the extracted connection-loop model (Cs104/Client.v) must reproduce the real client's whole trace
    try:
        cm = clientlib.model()
    except Exception as e:
        cm = None
        ck.fail("correspondence", "model-build", "extracted client model does not build: " + str(e)[:300], {"theorem": "extraction"})
    ndiff += clientlib.correspond(ck, cm, cs, rc, "timers")
    for role, scripts, res in (("server", ss, rs), ("client", cs, rc)):
        for sid, lines in scripts:
            ck.evaluations += 1
            o = res.get(sid, dict(out=[], crash=None))
            if o["crash"]:
                ck.fail("input", "crash:%s:%s" % (o["crash"]["kind"], o["crash"]["site"]), "%s aborted: %s at %s" % (role, o["crash"]["kind"], o["crash"]["site"]),
                        {"script": lines, "role": role, "stderr": o["crash"]["text"]})
                continue
            cout = [l for l in o["out"] if not l.startswith(("sem ", "st ", "q ", "raw "))]
            if role == "server" and m and sid in rm and rm[sid]["out"] != cout and ndiff < 10:
                ndiff += 1
                mo = rm[sid]["out"]
                i = next((j for j, (a, b) in enumerate(zip(cout, mo)) if a != b), min(len(cout), len(mo)))
                ck.fail("correspondence", "diff:server-timers", "server model and implementation differ at trace line %d: C=%s model=%s" % (i, cout[i:i + 1], mo[i:i + 1]),
                        {"script": lines, "c": cout[max(0, i - 3):i + 2], "model": mo[max(0, i - 3):i + 2]})
            for sig, text in analyse(ck, role, sid, lines, cout, meta[sid]):
                ck.fail("input", "oracle:%s:%s" % (sig, role), "%s (k=%d w=%d t1=%d t2=%d t3=%d): %s" % (role, meta[sid]["k"], meta[sid]["w"], meta[sid]["t1"], meta[sid]["t2"], meta[sid]["t3"], text),
                        {"script": lines, "role": role, "observed": cout[-8:]})
            ck.nontriv((role, tuple(sorted(meta[sid].items())), sid))
            if len(ck.samples) < 4 and ck.evaluations % 97 == 1:
                ck.sample({"role": role, "params": meta[sid], "script": lines[:14]})
    run_switchover(ck, rng, quick, hsrv)
    run_testfr(ck, rng, quick, hsrv)
    run_reconfig(ck, rng, quick, hsrv)
    ck.count("server_scripts", len(ss))
    ck.count("client_scripts", len(cs))
    ck.extra["disagreements"] = ndiff
    ck.extra["exhaustive"] = False


def replay(ck, path):
    r = json.loads(Path(path).read_text())["replay"]
    hsrv, hcli = harnesses()
    exe = hcli if r.get("role") == "client" else hsrv
    res = runner.run_batch(exe, [("replay", r.get("script", []))])
    print("\n".join(res["replay"]["out"]))
    ck.evaluations = 1
