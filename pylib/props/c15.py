"""C15 -- frame count bit: alternation, identical retransmission, duplicate suppression, reset.
proof:   coq/Properties/C15.v (step theorems for both primaries and both secondaries; trace theorem sec_at_most_once;
         _refuted theorems with concrete witnesses for the original code)
tie:     extracted models vs the real code: (1) single stations (harness/h_ll.c) under random frame / clock / request
         sequences, trace + state dump; (2) the composed line (harness/h_cs101.c: real CS101_Master and CS101_Slave)
         under loss patterns, frame by frame
oracle:  the IEC 60870-5-2 frame-count-bit rules evaluated on the frames seen on the simulated line (pylib/props/linklib.py
         FcbOracle), plus at-most-once delivery per ASDU"""
import json
from pathlib import Path
from vf import core, runner
from props import linklib as L

LEVEL = "proof"
prebuild = L.prebuild


def hx(b):
    return bytes(b).hex() if len(b) else "-"


def random_station_script(rng, kind, al, sc, n):
    own = {0: 0, 1: 3, 2: 0x1234}[al]
    oth = {0: 0, 1: 2, 2: 0x0456}[al]
    if kind == "us":
        s = ["cfg kind=us al=%d sc=%d addr=%d idle=%d" % (al, sc, own, rng.choice([500, 100000]))]
    elif kind == "bal":
        s = ["cfg kind=bal al=%d sc=%d addr=%d other=%d dir=%d idle=%d" % (al, sc, own, oth, rng.below(2), rng.choice([700, 100000]))]
    else:
        s = ["cfg kind=up al=%d sc=%d slaves=%d,%d" % (al, sc, own, own + 1)]
    fcb = 1
    for _ in range(n):
        r = rng.below(100)
        if r < 30:
            s.append("tick %d" % rng.choice([0, 10, 60, 150, 201, 250, 1001, 1600]))
        elif r < 40:
            s.append("run")
        elif r < 75:
            # a well-formed frame for this station; function code and flags chosen at random
            if kind == "us":
                fc = rng.choice([0, 3, 3, 9, 10, 11, 11, 4, 2, 7, 12])
                fcv = 1 if fc in (3, 10, 11, 2) and rng.chance(9, 10) else 0
                if fcv:
                    b = fcb if rng.chance(4, 5) else fcb ^ 1
                    if b == fcb:
                        fcb ^= 1
                else:
                    b = 0
                    if fc in (0, 7):
                        fcb = 1
                c = L.ctrl(fc, prm=1, fcb_acd=b, fcv_dfc=fcv)
                f = L.variable(al, c, own, rng.bytes(rng.range(1, 12))) if fc in (3, 4) else L.fixed(al, c, own)
            elif kind == "bal":
                if rng.chance(1, 2):
                    fc = rng.choice([0, 0, 0, 11, 11, 1, 8, 9, 14, 15])
                    c = L.ctrl(fc, prm=0, dir=rng.below(2), fcv_dfc=1 if rng.chance(1, 15) else 0)
                    f = b"\xe5" if (fc == 0 and rng.chance(1, 3)) else L.fixed(al, c, own)
                else:
                    fc = rng.choice([0, 3, 3, 3, 9, 2, 4, 5])
                    fcv = 1 if fc in (3, 2) else 0
                    b = 0
                    if fcv:
                        b = fcb if rng.chance(3, 4) else fcb ^ 1
                        if b == fcb:
                            fcb ^= 1
                    elif fc == 0:
                        fcb = 1
                    c = L.ctrl(fc, prm=1, dir=rng.below(2), fcb_acd=b, fcv_dfc=fcv)
                    f = L.variable(al, c, own, rng.bytes(rng.range(0, 9))) if fc in (3, 4) else L.fixed(al, c, own)
            else:
                a = own + rng.below(2)
                fc = rng.choice([0, 0, 11, 11, 8, 8, 9, 9, 1, 14, 15, 5])
                c = L.ctrl(fc, prm=0, fcb_acd=1 if rng.chance(1, 4) else 0, fcv_dfc=1 if rng.chance(1, 20) else 0)
                f = b"\xe5" if (fc in (0, 9) and rng.chance(1, 3)) else (L.variable(al, c, a, rng.bytes(rng.range(0, 9))) if fc == 8 else L.fixed(al, c, a))
            s.append("rx " + hx(f))
        elif r < 90:
            if kind == "us":
                s.append(rng.choice(["enq1 ", "enq2 "]) + hx(rng.bytes(rng.range(1, 10))))
            elif kind == "bal":
                s.append("send " + hx(rng.bytes(rng.range(1, 10))))
            else:
                a = own + rng.below(2)
                s.append(rng.choice(["send a=%d %s" % (a, hx(rng.bytes(rng.range(1, 10)))), "poll1 a=%d" % a, "poll2 a=%d" % a, "poll2 a=%d" % a]))
        elif r < 93 and kind != "us":
            s.append("test" if kind == "bal" else "bcast " + hx(rng.bytes(3)))
        else:
            s.append("rx " + hx(rng.bytes(rng.range(1, 6))))
    return s


def default_actions(rng, mode, ns):
    acts, ident = {}, 1
    r = 12
    for k in range(6):
        for i in range(ns):
            acts.setdefault(r, []).append("msend s%d %s" % (i + 1, hx(L.asdu(ident, 4 + k, typ=45, cot=6))))
            ident += 1
            acts.setdefault(r + 2, []).append("enq%d s%d %s" % (1 + (k & 1), i + 1, hx(L.asdu(ident, 3 + k))))
            ident += 1
        r += 5
    return acts, ident


def eager_actions(rng, mode, ns):
    """an application that offers a new ASDU to the master in EVERY round (it is accepted only when the link layer is ready),
    so that a hand-over falls into every acknowledgement-timeout window"""
    acts, ident = {}, 1
    for r in range(12, 40):
        for i in range(ns):
            acts.setdefault(r, []).append("msend s%d %s" % (i + 1, hx(L.asdu(ident, 4 + (r % 5), typ=45, cot=6))))
            ident += 1
        if r % 6 == 0:
            acts.setdefault(r, []).append("enq%d s1 %s" % (1 + (r & 1), hx(L.asdu(ident, 3))))
            ident += 1
        if r % 7 == 3:      # ... and asks for a link test now and then, also while user data waits for its confirmation
            acts.setdefault(r, []).append("mtest s%d" % (1 + (r // 7) % ns))
    return acts, ident


def run(ck):
    quick = ck.tier == "quick"
    rng = core.Rng(ck.seed)
    ck.trusted = [
        "Coq 8.16.1 kernel; theorems of Properties/C15.v Closed under the global context (vm_compute only for the concrete _refuted witnesses and the Example)",
        "coq/Link/LinkPrim.v / LinkSec.v are hand transcriptions of the four state machines of link_layer.c with the clock explicit; tied on every run by differential "
        "execution: single stations (h_ll, state dump after every command) and the composed line (h_cs101, real CS101_Master/CS101_Slave) under loss patterns",
        "clock = simulated Hal_getMonotonicTimeInMs (virtual time); serial line = in-memory frame transfer with scripted loss/duplication",
        "the tree variant (repairs a..f present or not) is measured by probe scenarios and selects the model variant; the theorems cover both variants (…_refuted for the original code)",
        "extraction: ExtrOcamlBasic only; driver/d_link.ml composes the extracted station step functions into the line (composition code is OCaml, not Coq)",
    ]
    ck.rule = ("(1) random single-station histories: well-formed frames of every function code with right/wrong FCB, clock steps around the 200 ms / 1000 ms / link-state timeouts, "
               "application requests, garbage; (2) scripted master/slave exchanges with ASDUs in both directions: no loss, EVERY single frame-loss position, double losses, bursts of 9 "
               "lost frames starting at every position (forces link failure after any number of delivered frames, both FCB parities), duplicated frames, random loss up to 30 %; "
               "balanced and unbalanced, single-char ACK off/on; non-trivial = distinct (configuration, loss pattern) with at least one FCV frame")
    ck.coq("C15")
    fix, bad, praw = L.probe()
    ck.extra["tree_variant"] = fix
    sig = {"a_bal": "oracle:fcb:first-after-reset:balanced", "a_unb": "oracle:fcb:first-after-reset:unbalanced", "b": "oracle:fcb:duplicate-not-answered:balanced",
           "c": "oracle:fcb:repeat-not-identical:unbalanced-request", "e": "oracle:fcb:answer-uninitialised:unbalanced",
           "g_unb": "oracle:fcb:confirmed-message-sent-again:unbalanced-test-request", "g_unb2": "oracle:fcb:test-request-never-served:unbalanced",
           "g_bal": "oracle:fcb:repeat-not-identical:balanced-test-request", "i": "oracle:fcb:out-of-step-after-unserved-frame:unbalanced-secondary"}
    for k, what in bad.items():
        if k in sig:
            ck.fail("input", sig[k], what, {"script": L.PROBES[k], "observed": praw[k]["out"], "harness": "h_ll"})
    hll, hcs = L.h_ll(), L.h_cs101()
    try:
        mexe = L.model()
    except Exception as e:
        mexe = None
        ck.fail("correspondence", "model-build", "extracted model does not build: " + str(e)[:300], {"theorem": "extraction"})
    # ---- (1) single stations
    st_scripts = []
    for i in range(120 if quick else 3000):
        kind = ("us", "bal", "up")[i % 3]
        st_scripts.append(("st.%s.%d" % (kind, i), random_station_script(rng, kind, rng.choice([0, 1, 1, 2]), rng.below(2), 60 if quick else 120)))
    rc, nd1 = L.correspond(ck, hll, mexe, st_scripts, fix, "link-station")
    for sid, lines in st_scripts:
        o = rc.get(sid)
        if o and not o["crash"]:
            ck.evaluations += 1
            al = int(lines[0].split("al=")[1][0])
            for l in o["out"]:
                if l.startswith("tx ") and L.wf_frame(bytes.fromhex(l.split()[1]), al):
                    ck.fail("input", "oracle:tx-malformed:station", "malformed frame written: " + l, {"script": lines, "harness": "h_ll"})
            if any(l.startswith("tx ") for l in o["out"]):
                ck.nontriv(("station", sid))
    ck.count("station_scripts", len(st_scripts))
    # ---- (1b) directed: a frame of the maximum length (L = 253, 254, 255) is received between a transmission and its repetition:
    #      the repetition is still the identical frame (the receive buffer and the copy kept for repetition are different storage)
    rep_scripts, rep_meta = [], {}
    for al in (0, 1, 2):
        own = {0: 0, 1: 3, 2: 0x1234}[al]
        oth = {0: 0, 1: 2, 2: 0x0456}[al]
        for Lf in (253, 254, 255):
            big = bytes((7 * i + Lf) & 0xFF for i in range(Lf - 1 - al))
            d = bytes([0x0d, 1, 3, 0, 1, 0, 0x11, 0x22, 0x33, 0x44, 0x55, 0x66])
            sid = "rep.us.%d.%d" % (al, Lf)
            rep_scripts.append((sid, ["cfg kind=us al=%d sc=0 addr=%d idle=100000" % (al, own), "rx " + hx(L.fixed(al, L.ctrl(0, prm=1), own)), "enq2 " + hx(d),
                                      "rx " + hx(L.fixed(al, L.ctrl(11, prm=1, fcb_acd=1, fcv_dfc=1), own)),
                                      "rx " + hx(L.variable(al, L.ctrl(4, prm=1), own, big)),
                                      "rx " + hx(L.fixed(al, L.ctrl(11, prm=1, fcb_acd=1, fcv_dfc=1), own))]))
            rep_meta[sid] = ("us", al, Lf)
            sid = "rep.bal.%d.%d" % (al, Lf)
            rep_scripts.append((sid, ["cfg kind=bal al=%d sc=0 addr=%d other=%d dir=1 idle=100000" % (al, own, oth), "run",
                                      "rx " + hx(L.fixed(al, L.ctrl(11, prm=0), own)), "rx " + hx(L.fixed(al, L.ctrl(0, prm=0), own)), "send " + hx(d), "run",
                                      "rx " + hx(L.variable(al, L.ctrl(4, prm=1), own, big)), "tick 250"]))
            rep_meta[sid] = ("bal", al, Lf)
    rr, nd1b = L.correspond(ck, hll, mexe, rep_scripts, fix, "link-station-repeat")
    nd1 += nd1b
    for sid, lines in rep_scripts:
        o = rr.get(sid)
        if not o or o["crash"]:
            continue
        ck.evaluations += 1
        kind, al, Lf = rep_meta[sid]
        ud = [bytes.fromhex(l.split()[1]) for l in o["out"] if l.startswith("tx 68")]
        if len(ud) >= 2:
            ck.nontriv(("repeat", sid))
            if ud[-1] != ud[0]:
                ck.fail("input", "oracle:fcb:repeat-not-identical:after-max-frame", "%s station (address width %d): after receiving a frame with L=%d the repetition %s differs from the first transmission %s" % (
                    kind, al, Lf, ud[-1].hex(), ud[0].hex()), {"script": lines, "observed": [l for l in o["out"] if l.startswith(("tx", "rxmsg"))][-6:], "harness": "h_ll"})
        else:
            ck.fail("input", "oracle:fcb:repeat-missing:after-max-frame", "%s station (address width %d): no repetition after a frame with L=%d was received in between (transmitted: %s)" % (
                kind, al, Lf, [x.hex()[:24] for x in ud]), {"script": lines, "observed": o["out"][-8:], "harness": "h_ll"})
    # ---- (2) the line under loss patterns
    cfgs = [("bal", 1, 0, 1), ("bal", 1, 1, 1), ("unb", 1, 0, 1), ("unb", 1, 1, 2)] if quick else \
           [(m, al, sc, n) for m in ("bal", "unb") for al in (1, 2) for sc in (0, 1) for n in ((1,) if m == "bal" else (1, 2, 3))]
    scripts, meta = [], {}
    for mode, al, sc, ns, eager in [c + (e,) for c in cfgs for e in (False, True)]:
        if eager and quick and (al, sc) != (1, 0) and mode == "bal":
            continue
        acts, nid = (eager_actions if eager else default_actions)(rng, mode, ns)
        rounds, tick = 70, 70
        tag = "%s.%d.%d.%d%s" % (mode, al, sc, ns, ".eager" if eager else "")
        base = L.exchange(mode, al, sc, ns, acts, rounds, tick, marks=True)
        n = L.frames_in(runner.run_batch(hcs, [("b", base)])["b"]["out"])

        def add(kind, lose=(), dup=(), quiet=(), extra="", acts=acts, rounds=rounds, tls=1500):
            sid = "%s.%s.%s%s" % (tag, kind, "_".join(map(str, sorted(lose)[:4])), ("+d" + "_".join(map(str, sorted(dup)))) if dup else "")
            if sid in meta:
                return
            scripts.append((sid, L.exchange(mode, al, sc, ns, acts, rounds, tick, lose=lose, dup=dup, marks=True, quiet=quiet, extra_cfg=extra, tls=tls)))
            meta[sid] = dict(mode=mode, al=al, ns=ns, kind=kind, lose=sorted(lose), dup=sorted(dup))
        add("base")
        if mode == "bal" and not eager:
            # balanced stations that supervise the idle line with test function frames (every 300 ms of silence): traffic, silence
            # (test frames run), a burst of losses somewhere (a test frame may be the one that fails), traffic again of which the
            # first user data frame of either station is lost once -- its repetition must be that frame again
            acts_t = {r: list(a) for r, a in acts.items() if r < 30}
            idn = 7000
            for r in range(72, 100, 3):
                acts_t.setdefault(r, []).append("enq1 s1 %s" % hx(L.asdu(idn, 4, typ=30, cot=3))); idn += 1
                acts_t.setdefault(r + 1, []).append("msend s1 %s" % hx(L.asdu(idn, 4, typ=45, cot=6))); idn += 1
            acts_t[71] = acts_t.get(71, []) + ["losenext m", "losenext s1"]
            xt = " idle=300"
            nt = L.frames_in(runner.run_batch(hcs, [("b", L.exchange(mode, al, sc, ns, acts_t, 130, tick, marks=True, extra_cfg=xt, tls=400))])["b"]["out"])
            add("idletest-first-data", [], extra=xt, acts=acts_t, rounds=130, tls=400)
            for k in range(1, nt - 8, 3 if quick else 1):
                add("idletest-burst+first-data", range(k, k + 9), extra=xt, acts=acts_t, rounds=130, tls=400)
        if mode == "unb" and eager:
            # the master application polls only every third round: between the polls nothing but its own commands waits, so a hand-over
            # can fall between a transmission and its confirmation; with every confirmation lost in turn
            sparse = [r for r in range(rounds) if r % 3]
            nb = L.frames_in(runner.run_batch(hcs, [("b", L.exchange(mode, al, sc, ns, acts, rounds, tick, marks=True, quiet=sparse))])["b"]["out"])
            for k in range(1, nb + 1):
                add("sparse-single%d" % k, [k], quiet=sparse)
        if mode == "unb" and not eager:
            # a silent line for longer than the secondary's idle supervision, after an odd / even number of frames; then traffic again.
            # And an idle supervision shorter than the acknowledgement timeout with every single answer lost in turn.
            for q0 in (44, 45, 46, 47):
                add("quiet%d" % q0, quiet=range(q0, q0 + 12), extra=" idle=500")
            for k in range(1, n + 1, 3):
                add("shortidle", [k], extra=" idle=100")
        for k in range(1, n + 1):
            add("single", [k])
        for k in range(1, n + 1, 1 if not quick else 2):
            add("burst", range(k, k + 9))
        for _ in range(60 if quick else 600):
            a = rng.range(1, n)
            add("double", [a, rng.range(a + 1, min(n + 6, a + 12))])
        if not eager:   # a duplicated primary frame is answered twice; with an application that sends at once the second (unnumbered)
                        # acknowledgement is taken for the answer to the NEXT frame: outside what 60870-5-2 can tolerate
            for k in range(1, n + 1, 2 if quick else 1):
                add("dup-primary", dup=[k])
        for _ in range(25 if quick else 300):
            p = rng.range(3, 30)
            add("random%d" % p, [k for k in range(1, 3 * n) if rng.below(100) < p])
    ck.count("line_scripts", len(scripts))
    rl, nd2 = L.correspond(ck, hcs, mexe, scripts, fix, "link-line")
    ck.extra["disagreements"] = nd1 + nd2
    for sid, lines in scripts:
        o = rl.get(sid)
        if not o or o["crash"]:
            continue
        m = meta[sid]
        ck.evaluations += 1
        dup_secondary = False
        for l in o["out"]:
            if l.startswith("tx ") and l.endswith(" dup"):
                f = bytes.fromhex(l.split()[3])
                c = None if f == b"\xe5" else (f[1] if f[0] == 0x10 else f[4])
                if c is None or not c & 0x40:
                    dup_secondary = True
        if dup_secondary:
            # a duplicated answer (unnumbered ACK / response) can be taken for the answer to the NEXT frame: outside what
            # 60870-5-2 SEND/CONFIRM and REQUEST/RESPOND tolerate (stated limit, see notes)
            ck.count("loss:dup-of-secondary-frame(not evaluated)")
            continue
        errs, stats = L.fcb_check(o["out"], m["mode"], m["al"], m["ns"], script=lines)
        for code, text in errs[:3]:
            ck.fail("input", "oracle:fcb:%s:%s" % (code, "balanced" if m["mode"] == "bal" else "unbalanced"), text + " [loss pattern %s %s]" % (m["kind"], m["lose"][:6]),
                    {"script": lines, "observed": [l for l in o["out"] if l[:2] in ("tx", "ml", "sl", "md", "sd")][-14:], "harness": "h_cs101"})
        ck.count("loss:" + m["kind"].rstrip("0123456789"))
        ck.count("fcv_frames", stats["fcv"])
        ck.count("retransmissions", stats["reps"])
        if stats["fcv"]:
            ck.nontriv((sid,))
        if ck.evaluations % 211 == 1:
            ck.sample({"config": sid, "lost": m["lose"][:8], "trace_tail": o["out"][-5:]})
    ck.extra["exhaustive"] = False
    ck.notes.append("duplication of frames from the secondary (a duplicated unnumbered ACK) is outside what 60870-5-2 SEND/CONFIRM can tolerate; for those scripts only at-most-once delivery is evaluated")


def replay(ck, path):
    r = json.loads(Path(path).read_text())["replay"]
    lines = r.get("script", [])
    exe = L.h_cs101() if (r.get("harness") == "h_cs101" or any(l.startswith("cfg mode=") for l in lines)) else L.h_ll()
    res = runner.run_batch(exe, [("replay", lines)])
    print("\n".join(res["replay"]["out"]))
    if res["replay"]["crash"]:
        print(res["replay"]["crash"]["text"])
    ck.evaluations = 1
