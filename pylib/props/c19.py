"""C19 -- time tags, counters, scaled/normalised values.
proof:   coq/Properties/C19.v over definitions regenerated from the C source (translate/c2gallina.py)
tie:     (a) the generated Gallina is executed (extracted) against the compiled C on the same calls,
         (b) the hand models (gmtime_r = Time/Civil.v, binary32 = Flocq) are compared with libc / the FPU
oracle:  independent Python statement of the property evaluated on the C outputs only."""
import datetime, json, os, struct, subprocess, sys, time
from pathlib import Path
from vf import core

sys.path.insert(0, str(core.VERIF / "translate"))
import gen_c19

LEVEL = "proof"

# record descriptions for the oracle (written from IEC 60870-5-101 7.2.6.x, not from the code)
# field: (getter, setter or None, range (lo, hi) for the setter argument, step)
def tt(prefix, n):
    f = [("%s_getMillisecond" % prefix, "%s_setMillisecond" % prefix, (0, 1000)),
         ("%s_getSecond" % prefix, "%s_setSecond" % prefix, (0, 60)),
         ("%s_getMinute" % prefix, "%s_setMinute" % prefix, (0, 60)),
         ("%s_isInvalid" % prefix, "%s_setInvalid" % prefix, (0, 2)),
         ("%s_isSubstituted" % prefix, "%s_setSubstituted" % prefix, (0, 2))]
    if n >= 4:
        f += [("%s_getHour" % prefix, "%s_setHour" % prefix, (0, 24)),
              ("%s_isSummerTime" % prefix, "%s_setSummerTime" % prefix, (0, 2))]
    if n >= 7:
        f += [("%s_getDayOfWeek" % prefix, "%s_setDayOfWeek" % prefix, (0, 8)),
              ("%s_getDayOfMonth" % prefix, "%s_setDayOfMonth" % prefix, (0, 32)),
              ("%s_getMonth" % prefix, "%s_setMonth" % prefix, (0, 16)),
              ("%s_getYear" % prefix, "%s_setYear" % prefix, (0, 100))]
    return f

RECORDS = {
    "CP56Time2a": dict(size=7, fields=tt("CP56Time2a", 7), word=True,
                       reserved=[(3, 0x60), (5, 0xF0), (6, 0x80)],
                       octets={"Minute": [2], "Invalid": [2], "Substituted": [2], "Hour": [3], "SummerTime": [3],
                               "DayOfWeek": [4], "DayOfMonth": [4], "Month": [5], "Year": [6]}),
    "CP32Time2a": dict(size=4, fields=tt("CP32Time2a", 4), word=True, reserved=[(3, 0x60)],
                       octets={"Minute": [2], "Invalid": [2], "Substituted": [2], "Hour": [3], "SummerTime": [3]}),
    "CP24Time2a": dict(size=3, fields=tt("CP24Time2a", 3), word=True, reserved=[],
                       octets={"Minute": [2], "Invalid": [2], "Substituted": [2]}),
    "BinaryCounterReading": dict(size=5, word=False, reserved=[],
                                 fields=[("BinaryCounterReading_getValue", "BinaryCounterReading_setValue", (-2 ** 31, 2 ** 31)),
                                         ("BinaryCounterReading_getSequenceNumber", "BinaryCounterReading_setSequenceNumber", (0, 32)),
                                         ("BinaryCounterReading_hasCarry", "BinaryCounterReading_setCarry", (0, 2)),
                                         ("BinaryCounterReading_isAdjusted", "BinaryCounterReading_setAdjusted", (0, 2)),
                                         ("BinaryCounterReading_isInvalid", "BinaryCounterReading_setInvalid", (0, 2))],
                                 octets={"SequenceNumber": [4], "Carry": [4], "Adjusted": [4], "Invalid": [4]}),
    "StatusAndStatusChangeDetection": dict(size=4, word=False, reserved=[],
                                           fields=[("StatusAndStatusChangeDetection_getSTn", "StatusAndStatusChangeDetection_setSTn", (0, 65536)),
                                                   ("StatusAndStatusChangeDetection_getCDn", None, None)], octets={}),
    "SingleEvent": dict(size=1, word=False, reserved=[],
                        fields=[("SingleEvent_getEventState", "SingleEvent_setEventState", (0, 4)),
                                ("SingleEvent_getQDP", "SingleEvent_setQDP", (0, 256, 4))], octets={"EventState": [0], "QDP": [0]}),
    "CP16Time2a": dict(size=2, word=False, reserved=[],
                       fields=[("CP16Time2a_getEplapsedTimeInMs", "CP16Time2a_setEplapsedTimeInMs", (0, 65536))], octets={}),
}


def gen_cases(ck, rng, quick):
    """returns list of cases; a case = dict(kind, lines=[...], meta)"""
    cases = []
    for rname, R in RECORDS.items():
        n = R["size"]
        getters = [f[0] for f in R["fields"]]
        for fi, f in enumerate(R["fields"]):
            g, s, r = f
            if s is None:
                continue
            lo, hi = r[0], r[1]
            step = r[2] if len(r) > 2 else 1
            short = s.split("_set")[1]
            octs = R["octets"].get(short)
            bufs = []
            if octs:   # exhaustive over the affected octet, other octets random
                base = bytearray(rng.bytes(n))
                if R["word"]:
                    w = rng.below(60000)
                    base[0], base[1] = w & 255, w >> 8
                for pat in range(256):
                    b = bytearray(base)
                    b[octs[0]] = pat
                    bufs.append(bytes(b))
                vals = list(range(lo, hi, step))
            else:
                words = [0, 1, 999, 1000, 59000, 59999, 58999, 255, 256, 32768, 65535 if not R["word"] else 59998]
                for _ in range(40 if quick else 400):
                    words.append(rng.below(60000 if R["word"] else 65536))
                for w in words:
                    b = bytearray(rng.bytes(n))
                    if n >= 2:
                        b[0], b[1] = w & 255, (w >> 8) & 255
                    bufs.append(bytes(b))
                span = hi - lo
                if span <= 1000:
                    vals = list(range(lo, hi, step))
                else:
                    vals = [lo, lo + 1, -1, 0, 1, 127, 128, 255, 256, 32767, 32768, 65535, hi - 2, hi - 1]
                    vals = [v for v in vals if lo <= v < hi]
                    vals += [rng.range(lo, hi - 1) for _ in range(30 if quick else 300)]
            # thin out: all buffers x a rotating subset of values keeps every (octet pattern) and every value
            per = 4 if quick else 16
            for bi, b in enumerate(bufs):
                vs = vals if len(bufs) <= 64 and len(vals) <= 64 else [vals[(bi * per + k) % len(vals)] for k in range(min(per, len(vals)))]
                for v in vs:
                    lines = ["call %s %s -" % (gg, b.hex()) for gg in getters]
                    lines.append("call %s %s %d" % (s, b.hex(), v))
                    cases.append(dict(kind="frame", rec=rname, field=fi, setter=s, buf=b.hex(), v=v, lines=lines, getters=getters))
            ck.count("frame:" + s, len(bufs))
    # per-bit accessors of the packed status word (M_PS_NA_1): every bit position, boundary and random words
    scdw = [0x0000, 0xffff, 0x8000, 0x0001, 0x7fff, 0xfffe, 0x4000, 0xa5a5, 0x5a5a] + [rng.below(65536) for _ in range(8 if quick else 200)]
    for wst in scdw:
        wcd = rng.choice(scdw)
        b = bytes([wst & 255, wst >> 8, wcd & 255, wcd >> 8]).hex()
        for i in range(16):
            cases.append(dict(kind="scdbit", st=wst, cd=wcd, i=i, lines=["call StatusAndStatusChangeDetection_getST %s %d" % (b, i),
                                                                          "call StatusAndStatusChangeDetection_getCD %s %d" % (b, i)]))
    ck.count("scd:bit-reads", len(scdw) * 32)
    # timestamps
    T0, T1 = 946684800000, 4102444800000
    ts = [T0, T0 + 1, T1 - 1, T0 + 86399999, T0 + 86400000, 951782400000 - 1, 951782400000, 951868800000,  # 2000-02-29
          4107542400000 - 86400000 * 60, 1078012800000, 1709164800000 - 1, 1709164800000]
    ts = [t for t in ts if T0 <= t < T1]
    for _ in range(1500 if quick else 30000):
        ts.append(rng.range(T0, T1 - 1))
    for d in range(10957, 47482, 37 if quick else 1):      # day boundaries
        ts.append(d * 86400000)
        ts.append(d * 86400000 + 86399999)
    for t in ts:
        cases.append(dict(kind="time", t=t, lines=["call CP56Time2a_setFromMsTimestamp %s %d" % (rng.bytes(7).hex(), t)]))
    ck.count("time:instants", len(ts))
    for d in range(10957, 47482):
        cases.append(dict(kind="civil", lines=["civil %d" % (d * 86400), "civil %d" % (d * 86400 + 86399)]))
    # scaled / normalised
    for r in range(-32768, 32768):
        cases.append(dict(kind="raw", r=r, lines=["call NormalizedValue_fromScaled - %d" % r]))
    # out-of-range C ints: scaledToNormalized clamps them (theorem C19_fromScaled_saturates); boundaries, powers of two, INT_MIN/MAX, random
    sat = [32768, 32769, 65535, 65536, 65537, 98303, 98304, 100000, 2 ** 24, 2 ** 24 + 1, 2 ** 31 - 1, -32769, -32770, -65535, -65536, -65537,
           -98304, -100000, -2 ** 24, -2 ** 31 + 1, -2 ** 31]
    sat += [rng.range(32768, 2 ** 31 - 1) for _ in range(200 if quick else 5000)] + [rng.range(-2 ** 31, -32769) for _ in range(200 if quick else 5000)]
    sat += [32768 + i for i in range(2, 300)] + [-32769 - i for i in range(2, 300)]
    for r in sat:
        cases.append(dict(kind="raw", r=r, want=max(-32768, min(32767, r)), lines=["call NormalizedValue_fromScaled - %d" % r]))
    ck.count("raw:out-of-range ints", len(sat))
    for r in list(range(-32768, 32768, 257)) + [-32768, -1, 0, 1, 32767]:
        b = rng.bytes(2).hex()
        cases.append(dict(kind="scaled", r=r, lines=["call setScaledValue %s %d" % (b, r)]))
    fl = [0x00000000, 0x80000000, 0x3f800000, 0xbf800000, 0x3f7ffe00, 0x3f7ffe01, 0x3f7ffdff, 0xbf800001, 0x7f800000, 0xff800000,
          0x00000001, 0x80000001, 0x007fffff, 0x7f7fffff, 0xff7fffff, 0x3f000000, 0x37800000, 0x37000000, 0xb7000000, 0x477fff00]
    # every float within 1024 ulps of the case-split boundaries of normalizedToScaled (+-NORMALIZED_VALUE_MAX, +-1.0, +-0.5 ulp of a raw step)
    for centre in (0x3f7ffe00, 0x3f800000, 0xbf7ffe00, 0xbf800000, 0x3f7fff00, 0xbf7fff00):
        fl += list(range(centre - 1024, centre + 1025))
    for _ in range(3000 if quick else 60000):
        w = rng.below(2 ** 32)
        if rng.chance(1, 2):    # concentrate on [-1.01, 1.01]
            f = (rng.below(2 ** 24) / 2 ** 23 - 1.0) * 1.01
            w = struct.unpack("<I", struct.pack("<f", f))[0]
        fl.append(w)
    for w in fl:
        f = struct.unpack("<f", struct.pack("<I", w))[0]
        if f != f:
            continue
        cases.append(dict(kind="float", w=w, lines=["call NormalizedValue_toScaled - %d" % w]))
    ck.count("float:patterns", len(fl))
    return cases


def run_lines(exe, lines, timeout=600):
    p = subprocess.run([str(exe)], input="\n".join(lines) + "\n", stdout=subprocess.PIPE, stderr=subprocess.PIPE, text=True,
                       timeout=timeout, env=dict(os.environ, ASAN_OPTIONS="detect_leaks=0:abort_on_error=0"))
    return p.returncode, p.stdout.splitlines(), p.stderr


def oracle(ck, case, out):
    """independent statement of C19 on the implementation's outputs; returns failure text or None"""
    k = case["kind"]
    if k == "frame":
        R = RECORDS[case["rec"]]
        g = len(case["getters"])
        before = [int(o.split()[1]) for o in out[:g]]
        newbuf = out[g].split()[0]
        return ("follow", newbuf, before)
    return None


def run(ck):
    quick = ck.tier == "quick"
    rng = core.Rng(ck.seed)
    ck.trusted = [
        "Coq 8.16.1 kernel incl. vm_compute (finite sweeps: 36525 days, 65536 raws, octet x value tables); no native_compute",
        "translate/c2gallina.py + clang -ast-dump=json: transcription of the C getters/setters into Gallina (validated by executing the extracted definitions against the compiled C on every call of this run)",
        "Time/Civil.v stands in for gmtime_r (validated on both ends of every day 2000..2099 each run; every second in thorough)",
        "Flocq binary32 (round-to-nearest-even) stands in for the compiler's float arithmetic (validated on all 65536 raws and a float sample each run; all 2^32 patterns natively in thorough)",
        "C int arithmetic is modelled as unbounded Z (signed overflow = UB is outside the model; UBSan build watches it at run time)",
        "extraction: ExtrOcamlBasic only; OCaml runner driver/d_time.ml used for the correspondence only",
        "axioms: Print Assumptions per theorem (Closed under the global context except C19_raw_roundtrip / C19_saturate_partial / C19_fromScaled_saturates / C19_fromScaled_ends which inherit Flocq's use of Classical_Prop.classic, FunctionalExtensionality.functional_extensionality_dep, ClassicalDedekindReals.sig_forall_dec, sig_not_dec)",
    ]
    ck.rule = ("frame cases: every setter x every pattern of the octet it touches (exhaustive 256) x in-range arguments, word fields on boundary+random words; "
               "timestamps: boundaries, leap days, day starts/ends, random; civil: both ends of all 36525 days; raws: all 65536; floats: boundaries + random (NaN excluded). "
               "non-trivial = distinct (function, buffer, argument) whose call changes or reads a non-zero record")
    # ---- 1. translator + proofs
    meta = {}

    def regen():
        meta.update(gen_c19.gen())
    ok = ck.coq("C19", regen=regen)
    if not meta:
        meta.update(gen_c19.gen())
    unrec = [(g, n, i["unrec"]) for g, d in meta.items() for n, i in d.items() if "unrec" in i and not n.startswith("__")]
    for g, n, why in unrec:
        ck.obligation("translate:" + n, False, why)
        ck.fail("obligation", "translate:" + n, "c2gallina cannot transcribe %s any more: %s" % (n, why), {"theorem": "translation of " + n})
    ck.obligation("translate:all-functions-recognised", not unrec, "%d functions transcribed" % sum(len(d) for d in meta.values()))
    # ---- 2. correspondence + oracle
    hexe = core.build_harness("h_time", ["h_time.c"], whitebox_of=("cpXXtime2a", "cs101_information_objects"))
    try:
        mexe = core.build_model("c19", core.CACHE / "gen" / "ExtractC19.v", [core.CACHE / "gen" / "time_table.ml"], core.VERIF / "driver" / "d_time.ml")
    except Exception as e:
        mexe = None
        ck.fail("correspondence", "model-build", "extracted model does not build: %s" % str(e)[:300], {"theorem": "extraction"})
    cases = gen_cases(ck, rng, quick)
    lines = [l for c in cases for l in c["lines"]]
    def run_c(lines, timeout=600, counted=True):
        """run the implementation harness; a sanitizer abort / crash is a failing input (the line it stopped on)"""
        rc, out, err = run_lines(hexe, lines, timeout)
        if rc != 0 or (counted and len(out) != len(lines)):
            site = "unknown"
            for l in err.splitlines():
                if "ERROR: AddressSanitizer" in l or "runtime error" in l:
                    site = l.strip()[:200]
                    break
            bad = lines[len(out)] if counted and len(out) < len(lines) else lines[-1]
            ck.fail("input", "crash:h_time:" + site.split(" on ")[0][-60:], "implementation aborted on: %s (%s)" % (bad, site), {"script": [bad], "stderr": err[-2000:]})
            return None
        return out
    cout = run_c(lines)
    if cout is None:
        return
    mout = None
    if mexe:
        rc2, mout, merr = run_lines(mexe, lines)
        if rc2 != 0 or len(mout) != len(lines):
            ck.fail("correspondence", "model-run", "model runner failed: " + merr[-300:], {"theorem": "extraction"})
            mout = None
    # second pass for frame cases: getters on the buffer after the setter
    pos = 0
    follow = []
    for c in cases:
        n = len(c["lines"])
        c["out"] = cout[pos:pos + n]
        c["mout"] = mout[pos:pos + n] if mout else None
        pos += n
        if c["kind"] == "frame":
            nb = c["out"][-1].split()[0]
            c["follow"] = ["call %s %s -" % (g, nb) for g in c["getters"]]
            follow += c["follow"]
    fout = run_c(follow)
    if fout is None:
        return
    fmout = None
    if mexe and mout is not None:
        _, fmout, _ = run_lines(mexe, follow)
    pos = 0
    ndis = 0
    nbad = 0
    for c in cases:
        ck.evaluations += 1
        k = c["kind"]
        diffs = [(l, a, b) for l, a, b in zip(c["lines"], c["out"], c["mout"] or c["out"]) if a != b]
        if k == "frame":
            n = len(c["follow"])
            fo = fout[pos:pos + n]
            fm = fmout[pos:pos + n] if fmout else fo
            diffs += [(l, a, b) for l, a, b in zip(c["follow"], fo, fm) if a != b]
            pos += n
        if diffs and ndis < 20:
            ndis += 1
            l, a, b = diffs[0]
            ck.fail("correspondence", "diff:" + l.split()[1], "model and implementation differ on `%s`: C=%s model=%s" % (l, a, b),
                    {"script": c["lines"], "c": a, "model": b})
        # ---- oracle on the implementation
        bad = None
        if k == "frame":
            R = RECORDS[c["rec"]]
            g = len(c["getters"])
            before = [int(o.split()[1]) for o in c["out"][:g]]
            after = [int(o.split()[1]) for o in fo]
            b0 = bytes.fromhex(c["buf"])
            b1 = bytes.fromhex(c["out"][g].split()[0])
            exp = list(before)
            exp[c["field"]] = c["v"]
            if after != exp:
                bad = "after %s(%s, %d): fields %s expected %s" % (c["setter"], c["buf"], c["v"], after, exp)
            for (o, m) in R["reserved"]:
                if (b0[o] & m) != (b1[o] & m):
                    bad = "reserved bits of octet %d changed by %s(%s,%d): %s" % (o, c["setter"], c["buf"], c["v"], b1.hex())
            if b0 != b1:
                ck.nontriv(("f", c["setter"], c["buf"], c["v"]))
        elif k == "time":
            t = c["t"]
            tag = bytes.fromhex(c["out"][0].split()[0])
            dt = datetime.datetime(1970, 1, 1) + datetime.timedelta(milliseconds=t)
            w = tag[0] | tag[1] << 8
            got = (w % 1000, w // 1000, tag[2] & 63, tag[3] & 31, tag[4] & 31, tag[5] & 15, tag[6] & 127)
            want = (dt.microsecond // 1000, dt.second, dt.minute, dt.hour, dt.day, dt.month, dt.year % 100)
            if got != want:
                bad = "setFromMsTimestamp(%d) encodes %s, calendar says %s" % (t, got, want)
            c["tag"] = tag
            ck.nontriv(("t", t))
        elif k == "raw":
            ck.nontriv(("r", c["r"]))
        elif k == "float":
            w = c["w"]
            f = struct.unpack("<f", struct.pack("<I", w))[0]
            r = int(c["out"][0].split()[1])
            nmax = struct.unpack("<f", struct.pack("<f", 32767.0 / 32768.0))[0]
            if not (-32768 <= r <= 32767):
                bad = "toScaled(bits %#x = %r) = %d outside the 16-bit range" % (w, f, r)
            elif f > nmax and r != 32767:
                bad = "toScaled(bits %#x = %r) = %d, expected saturation at 32767" % (w, f, r)
            elif f < -1.0 and r != -32768:
                bad = "toScaled(bits %#x = %r) = %d, expected saturation at -32768" % (w, f, r)
            ck.nontriv(("fl", w))
        elif k == "scaled":
            ck.nontriv(("s", c["r"]))
        elif k == "scdbit":
            got = [int(o.split()[1]) for o in c["out"]]
            want = [(c["st"] >> c["i"]) & 1, (c["cd"] >> c["i"]) & 1]
            if [1 if x else 0 for x in got] != want:
                bad = "StatusAndStatusChangeDetection getST/getCD(%d) on ST=%#06x CD=%#06x returned %s, the bits are %s" % (c["i"], c["st"], c["cd"], got, want)
            ck.nontriv(("scd", c["st"], c["i"]))
        if bad:
            nbad += 1
            if nbad <= 20:
                sig = "oracle:%s:%s" % (k, c.get("setter", ""))
                ck.fail("input", sig, bad, {"script": c["lines"] + c.get("follow", []), "observed": c["out"]})
        if len(ck.samples) < 6 and ck.evaluations % 9973 == 1:
            ck.sample({"kind": k, "script": c["lines"][-1], "c_output": c["out"][-1]})
    # third pass: toMs(tag) == t, raw round trip, scaled octets -- on the implementation
    l3, idx = [], []
    for c in cases:
        if c["kind"] == "time":
            l3.append("call CP56Time2a_toMsTimestamp %s -" % c["tag"].hex())
            idx.append(c)
        elif c["kind"] == "raw":
            l3.append("call NormalizedValue_toScaled - %s" % c["out"][0].split()[1])
            idx.append(c)
        elif c["kind"] == "scaled":
            l3.append("call getScaledValue %s -" % c["out"][0].split()[0])
            idx.append(c)
    o3 = run_c(l3)
    if o3 is None:
        return
    m3 = run_lines(mexe, l3)[1] if mexe and mout is not None else o3
    for c, l, a, b in zip(idx, l3, o3, m3):
        ck.evaluations += 1
        if a != b and ndis < 20:
            ndis += 1
            ck.fail("correspondence", "diff:" + l.split()[1], "model and implementation differ on `%s`: C=%s model=%s" % (l, a, b), {"script": [l]})
        v = int(a.split()[1])
        want = c["t"] if c["kind"] == "time" else c.get("want", c["r"])
        if v != want:
            nbad += 1
            sig = "oracle:roundtrip:" + c["kind"]
            ck.fail("input", sig, "%s round trip: %d came back as %d" % (c["kind"], want, v), {"script": c["lines"] + [l], "observed": [c["out"][0], a]})
    # native sweeps (implementation only)
    sw = []
    if quick:
        sw.append("secs 946684800 4102444800 3599")
        sw.append("floats 0 4294967296 4099")
    else:
        sw.append("secs 946684800 4102444800 1")
        sw.append("floats 0 4294967296 1")
    so = run_c(sw, timeout=3600, counted=False)
    if so is None:
        return
    for l, o in zip(sw, [x for x in so if x.startswith("done")]):
        n, b = int(o.split()[1]), int(o.split()[2])
        ck.evaluations += n
        ck.count("native:" + l.split()[0], n)
        if b:
            first = [x for x in so if x.startswith("bad")][:1]
            ck.fail("input", "oracle:native:" + l.split()[0], "native sweep `%s`: %d failures, first %s" % (l, b, first), {"script": [l], "observed": first})
    ck.extra["exhaustive"] = False
    ck.extra["correspondence_lines"] = len(lines) + len(follow) + len(l3)
    ck.extra["disagreements"] = ndis
    ck.notes.append("C19_saturate_partial: tails proved for all floats; the bound on the middle of the range is covered natively (floats sweep) not by a theorem")


def replay(ck, path):
    r = json.loads(Path(path).read_text())
    hexe = core.build_harness("h_time", ["h_time.c"], whitebox_of=("cpXXtime2a", "cs101_information_objects"))
    lines = r["replay"].get("script", [])
    rc, out, err = run_lines(hexe, lines)
    for l, o in zip(lines, out):
        print(l, "->", o)
    ck.evaluations = len(lines)


def prebuild():
    gen_c19.gen()
    core.build_harness("h_time", ["h_time.c"], whitebox_of=("cpXXtime2a", "cs101_information_objects"))
    core.build_model("c19", core.CACHE / "gen" / "ExtractC19.v", [core.CACHE / "gen" / "time_table.ml"], core.VERIF / "driver" / "d_time.ml")
