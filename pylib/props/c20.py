"""C20 -- file transfer through the file-service plugin is byte-exact and checksummed.
proof:   coq/Properties/C20.v (file-server state machine transcribed; for ANY file a procedure-following master receives
         exactly the octets, segment sizes within the ASDU limit, section/file checksums = sum mod 256, provider told once;
         repeated sections keep the checksums; upload offsets)
tie:     extracted handle_asdu / run_task vs the real plugin (CS101_FileServer_handleAsdu / runTask through the plugin
         interface, stub IMasterConnection, white-box state dump after every step), line by line on every script
oracle:  the property text evaluated in Python on the C trace: what a master reassembles from the ASDUs the plugin sent,
         against the file the provider offered"""
import json
from pathlib import Path
from vf import core, runner

LEVEL = "proof"


def harness():
    return core.build_harness("h_file", ["h_file.c"], whitebox_of=("file_server",))


def model():
    return core.build_model("file", core.COQ / "extract" / "ExtractFile.v", [], core.VERIF / "driver" / "d_file.ml")


def prebuild():
    harness()
    model()


# ------------------------------------------------------------------ ASDU construction / parsing (independent of the model)
class Cfg:
    def __init__(self, cot=2, ca=2, ioa=3, mx=249, timeout=3000):
        self.cot, self.ca, self.ioa, self.mx, self.timeout = cot, ca, ioa, mx, timeout
        self.hdr = 2 + cot + ca
        self.max_seg = mx - self.hdr - ioa - 4

    def line(self):
        return "cfg cot=%d ca=%d ioa=%d max=%d timeout=%d fixd=1" % (self.cot, self.ca, self.ioa, self.mx, self.timeout)

    def asdu(self, tid, cotv, ca, ioa, body, oa=0, vsq=1):
        b = bytes([tid, vsq, cotv]) + (bytes([oa]) if self.cot == 2 else b"") + ca.to_bytes(self.ca, "little")
        return b + ioa.to_bytes(self.ioa, "little") + body

    def parse(self, b):
        if len(b) < self.hdr:
            return None
        d = dict(tid=b[0], vsq=b[1], cot=b[2] & 63, pn=(b[2] >> 6) & 1, ca=int.from_bytes(b[2 + self.cot:self.hdr], "little"), payload=b[self.hdr:], raw=b)
        pl = d["payload"]
        if len(pl) >= self.ioa:
            d["ioa"] = int.from_bytes(pl[:self.ioa], "little")
            d["body"] = pl[self.ioa:]
        return d


class File:
    def __init__(self, secs, seed=1, ca=1, ioa=30000, nof=1):
        self.lens, self.seed, self.ca, self.ioa, self.nof = secs, seed, ca, ioa, nof
        self.secs = [bytes((seed * 131 + s * 31 + o * 7 + (o >> 8)) & 255 for o in range(n)) for s, n in enumerate(secs)]

    def line(self):
        return "file ca=%d ioa=%d nof=%d seed=%d secs=%s" % (self.ca, self.ioa, self.nof, self.seed, ",".join(map(str, self.lens)) or "-")


def nof2(nof):
    return nof.to_bytes(2, "little")


def m_select(c, f, **k): return c.asdu(122, 13, f.ca, f.ioa, nof2(f.nof) + bytes([0, 1]), **k)
def m_callfile(c, f, **k): return c.asdu(122, 13, f.ca, f.ioa, nof2(f.nof) + bytes([0, 2]), **k)
def m_callsec(c, f, n, neg=False): return c.asdu(122, 13 | (0x40 if neg else 0), f.ca, f.ioa, nof2(f.nof) + bytes([n & 255, 6]))
def m_ack(c, f, n, afq): return c.asdu(124, 13, f.ca, f.ioa, nof2(f.nof) + bytes([n & 255, afq]))
def m_fileready(c, f, lof): return c.asdu(120, 13, f.ca, f.ioa, nof2(f.nof) + lof.to_bytes(3, "little") + b"\0")
def m_secready(c, f, n, los): return c.asdu(121, 13, f.ca, f.ioa, nof2(f.nof) + bytes([n & 255]) + los.to_bytes(3, "little") + b"\0")
def m_segment(c, f, n, data): return c.asdu(125, 13, f.ca, f.ioa, nof2(f.nof) + bytes([n & 255, len(data)]) + data)
def m_last(c, f, n, lsq, chs): return c.asdu(123, 13, f.ca, f.ioa, nof2(f.nof) + bytes([n & 255, lsq, chs & 255]))


def nseg(c, n):
    return (n + c.max_seg - 1) // c.max_seg


# ------------------------------------------------------------------ scripted masters
def download_script(c, f, repeats=None, empty_ok=False, pace=0, think=0):
    """the standard procedure; repeats: {section index (1-based): number of negative section acknowledgements};
    pace: milliseconds of (virtual) time between two runs of the slave task; think: milliseconds the master takes to answer
    (both below the supervision timeout, so a procedure-following master still has to get the whole file)"""
    repeats = repeats or {}
    steps = [("rx", m_select(c, f), "select")]

    def rx(a, tag):
        if think:
            steps.append(("adv", think, "think"))
        steps.append(("rx", a, tag))

    def pump(n):
        if pace:
            for _ in range(n):
                steps.append(("adv", pace, "pace"))
                steps.append(("run", 1, "segments"))
        else:
            steps.append(("run", n, "segments"))
    rx(m_callfile(c, f), "callfile")
    for k, n in enumerate(f.lens, 1):
        rx(m_callsec(c, f, k), "callsec")
        pump(nseg(c, n) + 1)
        for _ in range(repeats.get(k, 0)):
            rx(m_ack(c, f, k, 4), "negack")
            pump(nseg(c, n) + 1)
        rx(m_ack(c, f, k, 3), "acksec")
    rx(m_ack(c, f, len(f.lens) + 1, 1), "ackfile")
    return steps


def upload_script(c, f, abort_at=None):
    steps = [("rx", m_fileready(c, f, sum(f.lens)), "fileready")]
    for k, sec in enumerate(f.secs, 1):
        steps.append(("rx", m_secready(c, f, k, len(sec)), "secready"))
        for o in range(0, len(sec), c.max_seg):
            steps.append(("rx", m_segment(c, f, k, sec[o:o + c.max_seg]), "segment"))
        if abort_at == k:
            steps.append(("rx", m_last(c, f, k, 2, 0), "abort"))
            return steps
        steps.append(("rx", m_last(c, f, k, 3, sum(sec)), "lastseg"))
    steps.append(("rx", m_last(c, f, len(f.secs) + 1, 1, sum(sum(s) for s in f.secs)), "lastsec"))
    return steps


def noise_kinds(c, f):
    """(name, [steps], benign?)  benign = a procedure-following master may see this without consequences for the transfer"""
    other = File([3], ca=f.ca, ioa=f.ioa + 1)
    ks = [
        ("unrelated-type", [("rx", c.asdu(100, 6, f.ca, 0, bytes([20])), "noise")], True),
        ("run-other-conn", [("run2", 1, "noise")], True),
        ("clock-small", [("adv", 100, "noise")], True),
        ("dir-call", [("rx", c.asdu(122, 5, f.ca, f.ioa, nof2(f.nof) + bytes([0, 0])), "noise")], True),
        ("reserved-type", [("rx", c.asdu(127, 13, f.ca, f.ioa, bytes(13)), "noise")], True),
        ("clock-timeout", [("adv", c.timeout + 1, "noise")], False),
        ("select-again", [("rx", m_select(c, f), "noise")], False),
        ("callfile-again", [("rx", m_callfile(c, f), "noise")], False),
        ("callsec-1", [("rx", m_callsec(c, f, 1), "noise")], False),
        ("callsec-2", [("rx", m_callsec(c, f, 2), "noise")], False),
        ("callsec-neg", [("rx", m_callsec(c, f, 1, neg=True), "noise")], False),
        ("ack-file-early", [("rx", m_ack(c, f, 1, 1), "noise")], False),
        ("nack-file", [("rx", m_ack(c, f, 1, 2), "noise")], False),
        ("nack-file-err", [("rx", m_ack(c, f, 1, 0x22), "noise")], False),
        ("ack-section", [("rx", m_ack(c, f, 1, 3), "noise")], False),
        ("nack-section", [("rx", m_ack(c, f, 1, 4), "noise")], False),
        ("ack-odd", [("rx", m_ack(c, f, 1, 0x11), "noise")], False),
        ("other-ioa-call", [("rx", m_callfile(c, other), "noise"), ("rx", m_callsec(c, other, 1), "noise")], False),
        # requests naming ANOTHER file of the same station (same CA and file type, other IOA): refused, the running transfer is untouched
        ("other-ioa-callfile", [("rx", m_callfile(c, other), "noise")], True),
        ("other-ioa-callsec", [("rx", m_callsec(c, other, 1), "noise")], True),
        ("other-ioa-callsec2", [("rx", m_callsec(c, other, 2), "noise")], True),
        ("other-ioa-callsec-neg", [("rx", m_callsec(c, other, 1, neg=True), "noise")], True),
        ("other-ioa-callsec2-neg", [("rx", m_callsec(c, other, 2, neg=True), "noise")], True),
        ("other-conn-ack", [("rx2", m_ack(c, f, 1, 3), "noise")], False),
        # a SELECT for ANOTHER file / name / station while this transfer runs (from the same master or from another connection):
        # ignored, the running transfer keeps its identity
        ("other-ioa-select", [("rx", m_select(c, other), "noise")], True),
        ("other-nof-select", [("rx", m_select(c, File([3], ca=f.ca, ioa=f.ioa, nof=f.nof + 1)), "noise")], True),
        ("other-ca-select", [("rx", m_select(c, File([3], ca=f.ca + 1, ioa=f.ioa, nof=f.nof)), "noise")], True),
        ("other-conn-select", [("rx2", m_select(c, other), "noise")], True),
        ("deactivate", [("rx", c.asdu(122, 13, f.ca, f.ioa, nof2(f.nof) + bytes([0, 3])), "noise")], False),
        ("fileready-in", [("rx", m_fileready(c, f, 10), "noise")], False),
        ("secready-in", [("rx", m_secready(c, f, 1, 10), "noise")], False),
        ("segment-in", [("rx", m_segment(c, f, 1, b"\x01\x02\x03"), "noise")], False),
        ("lastseg-in", [("rx", m_last(c, f, 1, 3, 0), "noise")], False),
        ("lastsec-in", [("rx", m_last(c, f, 1, 1, 0), "noise")], False),
        ("abort-in", [("rx", m_last(c, f, 1, 2, 0), "noise")], False),
    ]
    # truncated file ASDUs of every type (element cut at every length)
    for tid, full in ((120, m_fileready(c, f, 5)), (121, m_secready(c, f, 1, 5)), (122, m_select(c, f)), (123, m_last(c, f, 1, 3, 0)), (124, m_ack(c, f, 1, 3)),
                      (125, m_segment(c, f, 1, b"\x09\x08\x07\x06"))):
        for cut in (c.hdr, c.hdr + c.ioa - 1, c.hdr + c.ioa, len(full) - 1):
            ks.append(("truncated-%d" % tid, [("rx", full[:cut], "noise")], False))
    return ks


def lines_of(c, f, steps, recv=1):
    out = [c.line(), f.line() if f else "", "recv %d" % recv]
    for kind, arg, tag in steps:
        if kind in ("rx", "rx2"):
            out.append("%s %s" % (kind, arg.hex() or "-"))
        else:
            out.append("%s %d" % (kind, arg))
    return [l for l in out if l]


# ------------------------------------------------------------------ trace parsing + oracle
def split_trace(lines, out):
    """group the harness output per producing script line (rx/run lines; each ends with an `st` line)"""
    groups, cur = [], []
    for l in out:
        cur.append(l)
        if l.startswith("st "):
            groups.append(cur)
            cur = []
    prod = [l for l in lines if l.split()[0] in ("rx", "rx2", "run", "run2")]
    return list(zip(prod, groups)), cur


def oracle_download(c, f, steps, out, good, lines=None):
    """what a master reassembles from the plugin's ASDUs; returns list of (clause, text)"""
    bad = []
    # the master starts a fresh buffer for section n when it calls section n itself: mark those points in the trace
    marks = {}
    producer = {}             # output line index -> script command that produced it
    if lines is not None:
        pairs, _ = split_trace(lines, out)
        pos = 0
        prev_state = None
        # a supervision timeout may have ended the transfer unnoticed between two dumps: scripts that advance the clock by a
        # timeout or more are not judged by the outcome-missing clause
        timed_out = any(l.startswith("adv ") and int(l.split()[1]) >= c.timeout for l in lines)

        def body_matches(d, f):
            return d.get("ca") == f.ca and d.get("ioa") == f.ioa and int.from_bytes(d["body"][0:2], "little") == f.nof
        for prod, grp in pairs:
            w = prod.split()
            if w[0] in ("rx", "rx2") and w[1] != "-":
                d0 = c.parse(bytes.fromhex(w[1]))
                if d0 and d0["tid"] == 122 and d0["cot"] == 13 and not d0["pn"] and len(d0.get("body", b"")) >= 4 and d0["body"][3] == 6 and grp[-1].startswith("st TRANSMIT") and body_matches(d0, f):
                    marks[pos] = d0["body"][2]        # (a call naming another file is not this master restarting a section of this one)
                # the outcome told to the provider must be the one the master acknowledged
                if d0 and d0["tid"] == 124 and len(d0.get("body", b"")) >= 4:
                    afq = d0["body"][3]
                    if (afq == 1 or (afq & 15) == 2) and prev_state == "WAIT_FILE_ACK" and d0["cot"] == 13 and not any(g.startswith("cb complete") for g in grp) \
                            and body_matches(d0, f) and not timed_out:
                        bad.append(("outcome-missing", "the master ended the transfer with a file acknowledgement AFQ %#04x while the server waited for it; the provider was not told the outcome" % afq))
                    for g in grp:
                        if g.startswith("cb complete"):
                            told = int(g.split()[2])
                            want = 1 if afq == 1 else 0 if (afq & 15) == 2 else None
                            if want is None or told != want:
                                bad.append(("outcome-mismatch", "master acknowledged the file with AFQ %d, provider was told transferComplete(%d)" % (afq, told)))
            for k in range(pos, pos + len(grp)):
                producer[k] = w[0]
            pos += len(grp)
            if grp and grp[-1].startswith("st "):
                prev_state = grp[-1].split()[1]
    cur = {}                  # section number -> bytearray since the last section-ready for it
    done_secs = {}            # section number -> data at the time of its last-segment message
    completes = []
    selected_epoch = 0
    sent_full = {}            # per epoch: sections whose octets were all sent after their last restart
    nsecs = len(f.secs)
    total_chs = sum(sum(s) for s in f.secs) & 255
    for li, l in enumerate(out):
        w = l.split()
        if li in marks:
            cur[marks[li]] = bytearray()
            done_secs.pop(marks[li], None)
        if w[0] == "cb" and w[1] == "complete":
            completes.append((int(w[2]), dict(done_secs)))
            if int(w[2]) == 1:
                miss = [k for k in range(1, nsecs + 1) if done_secs.get(k) != f.secs[k - 1]]
                if miss:
                    bad.append(("success-incomplete", "transferComplete(true) although section(s) %s were not (completely) sent after their last restart" % miss))
        if w[0] != "tx":
            continue
        b = bytes.fromhex(w[2]) if w[2] != "-" else b""
        d = c.parse(b)
        if w[1] != "c0":
            # the master that selected the file is c0: nothing of the transfer belongs on another connection (answers to that
            # connection's own requests - handleAsdu answers the connection that asked - are not judged here)
            if d and d["cot"] == 13 and not d["pn"] and d["tid"] in (121, 123, 125) and producer.get(li) not in (None, "rx2"):
                bad.append(("wrong-connection", "file transfer ASDU type %d of the transfer selected on c0 was sent on %s" % (d["tid"], w[1])))
            continue
        if not d or "body" not in d:
            continue
        body = d["body"]
        if len(b) > c.mx:
            bad.append(("asdu-too-long", "ASDU of %d octets sent, maxSizeOfASDU is %d" % (len(b), c.mx)))
        if d["tid"] == 120 and d["cot"] == 13 and len(body) >= 6 and body[5] == 0 and not d["pn"]:       # file ready positive: new selection
            cur, done_secs = {}, {}
            lof = int.from_bytes(body[2:5], "little")
            if lof != sum(f.lens):
                bad.append(("file-length", "file ready announces %d octets, the file has %d" % (lof, sum(f.lens))))
        elif d["tid"] == 121 and len(body) >= 7:
            n = body[2]
            cur[n] = bytearray()
            done_secs.pop(n, None)
            los = int.from_bytes(body[3:6], "little")
            if 1 <= n <= nsecs and los != len(f.secs[n - 1]):
                bad.append(("section-length", "section ready %d announces %d octets, the section has %d" % (n, los, len(f.secs[n - 1]))))
        elif d["tid"] == 125 and len(body) >= 4:
            n, los = body[2], body[3]
            data = body[4:]
            if los != len(data):
                bad.append(("segment-los", "segment LOS %d but %d octets follow" % (los, len(data))))
            if los > c.max_seg:
                bad.append(("segment-too-long", "segment of %d octets, the ASDU size allows %d" % (los, c.max_seg)))
            cur.setdefault(n, bytearray()).extend(data)
        elif d["tid"] == 123 and len(body) >= 5:
            n, lsq, chs = body[2], body[3], body[4]
            if lsq == 3:
                got = bytes(cur.get(n, b""))
                done_secs[n] = got
                if chs != (sum(got) & 255):
                    bad.append(("section-checksum", "last segment of section %d carries CHS %d, the octets sent since its section-ready sum to %d" % (n, chs, sum(got) & 255)))
                if good and 1 <= n <= nsecs and got != f.secs[n - 1]:
                    bad.append(("section-bytes", "section %d: master reassembled %d octets, section has %d (equal=%s)" % (n, len(got), len(f.secs[n - 1]), got == f.secs[n - 1])))
            elif lsq == 1:
                have = [k for k in range(1, nsecs + 1) if done_secs.get(k) == f.secs[k - 1]]
                if len(have) == nsecs and chs != total_chs:
                    bad.append(("file-checksum", "last section carries file CHS %d, the file's octets sum to %d" % (chs, total_chs)))
    if good:
        if [x[0] for x in completes] != [1]:
            bad.append(("outcome", "procedure-following master: provider told %s (expected exactly one transferComplete(true))" % [x[0] for x in completes]))
    if len([1 for x in completes if x[0] == 1]) > 1 and not any(t == "noise" and k == "rx" and a == a for k, a, t in steps if False):
        pass
    return bad


def oracle_upload(c, f, steps, out, good):
    bad = []
    if any(t == "prelude" for _, _, t in steps):
        # a transfer that ended inside a section came first: judged is the complete upload after it (from its FILE READY on)
        last = max((i for i, l in enumerate(out) if l.startswith("cb fileready")), default=0)
        out = out[last:]
        steps = [x for x in steps if x[2] != "prelude"]
    sent = [a for k, a, t in steps if t == "segment"]
    segs = [l for l in out if l.startswith("cb segment")]
    fins = [int(l.split()[2]) for l in out if l.startswith("cb finished")]
    if good:
        exp = []
        for k, sec in enumerate(f.secs, 1):
            for o in range(0, len(sec), c.max_seg):
                exp.append("cb segment nos=%d off=%d size=%d data=%s" % (k, o, len(sec[o:o + c.max_seg]), sec[o:o + c.max_seg].hex()))
        aborted = any(t == "abort" for _, _, t in steps)
        if not aborted and segs != exp:
            i = next((i for i, (a, b) in enumerate(zip(segs, exp)) if a != b), min(len(segs), len(exp)))
            bad.append(("upload-bytes", "receiver got %d segments, master sent %d; first difference at %d: %s" % (len(segs), len(exp), i, (segs[i][:80] if i < len(segs) else None))))
        if aborted and segs != exp[:len(segs)]:
            bad.append(("upload-bytes", "receiver segments are not a prefix of what the master sent"))
        want = [8] if aborted else [0]
        if fins != want:
            bad.append(("upload-outcome", "receiver finished notifications %s, expected %s" % (fins, want)))
    if len(fins) > 1:
        bad.append(("upload-outcome-twice", "receiver told the outcome %d times" % len(fins)))
    return bad


# ------------------------------------------------------------------ generation
def gen(rng, quick):
    """-> list of (sid, direction, good, cfg, file, steps, recv)"""
    out = []
    c0 = Cfg()
    # (1) procedure-following masters: sizes around the segment boundary, 1..8 sections, up to 64 KiB
    shapes = [[1], [5], [236], [237], [235, 1], [472], [473], [3, 300], [1, 1, 1, 1, 1, 1, 1, 1], [236, 236, 236], [1000, 7, 2000]]
    shapes += [[rng.range(1, 700) for _ in range(rng.range(1, 8))] for _ in range(6 if quick else 60)]
    shapes += [[8192] * 8, [65535], [65536], [1, 65534], [30000, 35535]] if quick else [[8192] * 8, [65535], [1, 65534], [30000, 35535], [65536], [9000, 9001, 9002, 9003, 9004, 9005, 9006, 2493]]
    for i, sh in enumerate(shapes):
        f = File(sh, seed=i + 1)
        out.append(("dl.good.%d" % i, "dl", True, c0, f, download_script(c0, f), 1))
        if sum(sh) <= 3000:
            out.append(("ul.good.%d" % i, "ul", True, c0, f, upload_script(c0, f), 1))
        if sum(sh) <= 3000:
            rep = {rng.range(1, len(sh)): rng.range(1, 2)}
            out.append(("dl.repeat.%d" % i, "dl", True, c0, f, download_script(c0, f, rep), 1))
    # (1a) a complete upload AFTER a transfer that ended inside a section (upload aborted by the master, upload that ran into the
    #      supervision timeout, download abandoned while a section was being transmitted): offsets start at 0 again
    fa = File([600, 230, 7], seed=77)
    pre_abort = [(k, a, "prelude") for k, a, _ in upload_script(c0, fa, abort_at=1)]
    pre_tmo = [(k, a, "prelude") for k, a, _ in upload_script(c0, fa)[:4]] + [("adv", c0.timeout + 1, "prelude"), ("run", 1, "prelude")]
    pre_dl = [("rx", m_select(c0, fa), "prelude"), ("rx", m_callfile(c0, fa), "prelude"), ("rx", m_callsec(c0, fa, 1), "prelude"), ("run", 2, "prelude"),
              ("adv", c0.timeout + 1, "prelude"), ("run", 1, "prelude")]
    for name, pre in (("abort", pre_abort), ("timeout", pre_tmo), ("download", pre_dl)):
        out.append(("ul.after." + name, "ul", True, c0, fa, pre + upload_script(c0, fa), 1))
    # (1a') the monotonic clock may stand anywhere: just after its origin (a device that has just booted: below the supervision
    #      timeout), around 2^32 ms (49.7 days up), far beyond; the standard transfers work all the same
    fc = File([700, 1, 480], seed=78)
    for j, t0 in enumerate([0, 1, 500, 2500, 2999, 3000, 2 ** 32 - 200, 2 ** 32 - 1, 2 ** 32 + 60000, 2 ** 40 + 7]):
        out.append(("dl.clock.%d" % j, "dl", True, c0, fc, [("clock", t0, "prelude")] + download_script(c0, fc), 1))
        out.append(("ul.clock.%d" % j, "ul", True, c0, fc, [("clock", t0, "prelude")] + upload_script(c0, fc), 1))
    # (1b) the same procedure in (virtual) real time: a slave task every 100 ms, a master that takes up to just under the
    #      supervision timeout to answer -- sections that take longer than the timeout to transmit must still arrive
    for i, (sh, pace, think) in enumerate([([8192, 7081, 100], 100, 0), ([3, 300, 5], 0, c0.timeout - 1), ([7316, 7317], 100, 2000), ([500, 20000], 150, 10)] +
                                          ([] if quick else [([65535], 100, 0), ([8192] * 8, 99, 2999), ([236 * 31, 236 * 30], 100, 2899)])):
        f = File(sh, seed=100 + i)
        out.append(("dl.paced.%d" % i, "dl", True, c0, f, download_script(c0, f, {1: 1} if i % 2 else None, pace=pace, think=think), 1))
    # (1c) complete downloads that the master ends with a NEGATIVE file acknowledgement, with and without an error code in
    #      the upper nibble of AFQ: the provider has to be told transferComplete(false)
    for i, afq in enumerate([0x02, 0x12, 0x22, 0x32, 0x42, 0x52]):
        f = File([5, 300], seed=200 + i)
        st = download_script(c0, f)
        st[-1] = ("rx", m_ack(c0, f, len(f.lens) + 1, afq), "ackfile")
        out.append(("dl.negack.%02x" % afq, "dl", False, c0, f, st, 1))
    # (2) address sizes x maximum ASDU sizes
    for cot in (1, 2):
        for ca in (1, 2):
            for ioa in (1, 2, 3):
                for mx in ((20, 21, 64, 249, 254) if (cot, ca, ioa) in ((2, 2, 3), (1, 1, 1)) or not quick else (20 + rng.below(30), 249)):
                    c = Cfg(cot, ca, ioa, mx)
                    if c.max_seg < 1:
                        continue
                    sh = [c.max_seg, c.max_seg + 1, 1, 3 * c.max_seg - 1][:rng.range(2, 4)]
                    f = File(sh, seed=mx, ca=(1 if ca == 1 else 0x1234), ioa=(7 if ioa == 1 else 300 if ioa == 2 else 70000))
                    tag = "%d%d%d.%d" % (cot, ca, ioa, mx)
                    out.append(("dl.sz." + tag, "dl", True, c, f, download_script(c, f, {1: 1}), 1))
                    out.append(("ul.sz." + tag, "ul", True, c, f, upload_script(c, f), 1))
    # (3) noise injected at every step of a short transfer (download with a repeated section, upload, aborted upload)
    f = File([3, 300, 5], seed=9)
    bases = [("dl", download_script(c0, f, {2: 1})), ("ul", upload_script(c0, f)), ("ula", upload_script(c0, f, abort_at=2))]
    kinds = noise_kinds(c0, f)
    for bname, base in bases:
        direction = "dl" if bname == "dl" else "ul"
        for pos in range(len(base) + 1):
            ks = kinds if (not quick or pos % 2 == 0 or bname == "dl") else kinds[:8]
            for ki, (kname, ksteps, benign) in enumerate(ks):
                if quick and not benign and bname != "dl" and (ki + pos) % 3:
                    continue
                steps = base[:pos] + ksteps + base[pos:]
                good = benign and not (kname == "clock-small" and False)
                out.append(("%s.noise.%d.%s.%d" % (bname, pos, kname, ki), direction, good, c0, f, steps, 1))
    # (4) skipping / selecting sections, missing file, refusing receivers
    f2 = File([10, 20, 30], seed=4)
    skip = [("rx", m_select(c0, f2), "select"), ("rx", m_callfile(c0, f2), "callfile"), ("rx", m_callsec(c0, f2, 1, neg=True), "noise"), ("rx", m_callsec(c0, f2, 2), "callsec"),
            ("run", 2, "segments"), ("rx", m_ack(c0, f2, 2, 3), "acksec"), ("rx", m_callsec(c0, f2, 3), "callsec"), ("run", 2, "segments"), ("rx", m_ack(c0, f2, 3, 3), "acksec"),
            ("rx", m_ack(c0, f2, 4, 1), "ackfile")]
    out.append(("dl.skip.neg", "dl", False, c0, f2, skip, 1))
    jump = [("rx", m_select(c0, f2), "select"), ("rx", m_callfile(c0, f2), "callfile"), ("rx", m_callsec(c0, f2, 3), "callsec"), ("run", 2, "segments"),
            ("rx", m_ack(c0, f2, 3, 3), "acksec"), ("rx", m_ack(c0, f2, 4, 1), "ackfile")]
    out.append(("dl.skip.jump", "dl", False, c0, f2, jump, 1))
    stale = [("rx", m_select(c0, f2), "select"), ("rx", m_callfile(c0, f2), "callfile"), ("rx", m_callsec(c0, f2, 1), "callsec"), ("run", 1, "segments"),
             ("adv", 3001, "noise")] + download_script(c0, f2)
    out.append(("dl.after-timeout", "dl", False, c0, f2, stale, 1))
    for wrong in (File([4], ca=2), File([4], ioa=30001), File([4], nof=2)):
        out.append(("dl.nofile.%d%d%d" % (wrong.ca, wrong.ioa % 10, wrong.nof), "dl", False, c0, f2, [("rx", m_select(c0, wrong), "select"), ("rx", m_callfile(c0, wrong), "callfile")], 1))
    for mode in (0, 2, 3, 4):
        out.append(("ul.refuse.%d" % mode, "ul", False, c0, f2, upload_script(c0, f2), mode))
    out.append(("dl.empty", "dl", False, c0, File([], seed=2), [("rx", m_select(c0, f2), "select"), ("rx", m_callfile(c0, f2), "callfile"), ("rx", m_callsec(c0, f2, 1), "callsec"), ("run", 2, "segments")], 1))
    return out


def run(ck):
    quick = ck.tier == "quick"
    rng = core.Rng(ck.seed)
    ck.trusted = [
        "Coq 8.16.1 kernel; theorems Closed under the global context",
        "File/FileServer.v is a hand transcription of CS101_FileServer_handleAsdu / runTask; tied by running the extracted step functions against the compiled plugin on every script of the run, including the white-box state after every step",
        "provider and receiver (slave application) are modelled as the harness implements them: one file, getFile by (ca, ioa, nof), getSectionSize 0 outside the file; callbacks are observations",
        "F_* decoders are modelled by their size rule and field layout; encoders by the octets they emit (byte level of the information objects is C01/C02/C12's subject)",
        "virtual clock (simulated HAL); IMasterConnection_sendASDU always succeeds",
        "extraction: ExtrOcamlBasic only; driver/d_file.ml; harness/h_file.c",
    ]
    ck.rule = ("download: procedure-following masters on files of 1 octet .. 64 KiB in 1..8 sections with sizes around the segment boundary, with and without negative section acknowledgements; "
               "12 address-size configurations x maximum ASDU sizes 20..254; a short transfer with one of 49 disturbances (unrelated / out-of-sequence / repeated / truncated messages, other connection, clock jumps) injected at every step; "
               "section skipping, missing file; upload: the same shapes, aborts, refusing handlers; non-trivial = distinct (direction, scenario class, configuration) whose trace contains at least one transferred segment")
    ck.coq("C20")
    exe = harness()
    try:
        mexe = model()
    except Exception as e:
        mexe = None
        ck.fail("correspondence", "model-build", "extracted model does not build: " + str(e)[:300], {"theorem": "extraction"})
    cases = gen(rng, quick)
    scripts = [(sid, lines_of(c, f, steps, recv)) for sid, d, good, c, f, steps, recv in cases]
    ck.count("scripts", len(scripts))
    # scripts with truncated ASDUs abort the process when a decoder result is dereferenced unchecked; every abort costs a
    # restart of the batch, so they run in groups and the run stops adding groups once a group produced many aborts
    safe = [x for x in scripts if ".truncated-" not in x[0]]
    risky = sorted([x for x in scripts if ".truncated-" in x[0]], key=lambda x: (int(x[0].split(".")[2]), x[0].split(".")[0]))
    rc = runner.run_batch(exe, safe)
    skipped, stale_groups, seen_sigs = 0, 0, set()
    for g in range(0, len(risky), 24):
        grp = risky[g:g + 24]
        if skipped:
            skipped += len(grp)
            continue
        r = runner.run_batch(exe, grp)
        rc.update(r)
        sigs = {(v["crash"]["kind"], v["crash"]["site"]) for v in r.values() if v["crash"]}
        stale_groups = stale_groups + 1 if (sigs and sigs <= seen_sigs) else 0
        seen_sigs |= sigs
        if stale_groups >= 3:                       # three groups in a row with aborts but no new abort site
            skipped = 1
    if skipped > 1:
        ck.count("scripts_skipped_after_repeated_aborts", skipped - 1)
        cases = [x for x in cases if x[0] in rc]
        scripts = [x for x in scripts if x[0] in rc]
    rm = runner.run_batch(mexe, scripts) if mexe else {}
    ndiff = 0
    for (sid, d, good, c, f, steps, recv), (_, lines) in zip(cases, scripts):
        ck.evaluations += sum(1 for l in lines if l.split()[0] in ("rx", "rx2", "run", "run2"))     # compared steps
        ck.count("dir_" + d)
        o = rc.get(sid, dict(out=[], crash=None))
        cls = ".".join(sid.split(".")[:2]) + ("." + sid.split(".")[3] if ".noise." in sid else "")
        if o["crash"]:
            pairs, _ = split_trace(lines, o["out"])
            prod = [l for l in lines if l.split()[0] in ("rx", "rx2", "run", "run2")]
            culprit = prod[len(pairs)] if len(pairs) < len(prod) else prod[-1]
            tid = int(culprit.split()[1][:2], 16) if culprit.startswith("rx") and len(culprit.split()[1]) >= 2 else 0
            ck.fail("input", "crash:%s:%s" % (o["crash"]["kind"], o["crash"]["site"]), "file server aborted (%s at %s) on `%s` (type %d) in scenario %s" % (
                o["crash"]["kind"], o["crash"]["site"], culprit[:80], tid, sid), {"script": lines, "stderr": o["crash"]["text"][-800:]})
            continue
        if mexe and sid in rm and rm[sid]["out"] != o["out"]:
            ndiff += 1
            if ndiff <= 8:
                mo = rm[sid]["out"]
                i = next((i for i, (a, b) in enumerate(zip(o["out"], mo)) if a != b), min(len(o["out"]), len(mo)))
                ck.fail("correspondence", "diff:fileserver:" + cls, "model and plugin differ in scenario %s at trace line %d: C=%s model=%s" % (
                    sid, i, o["out"][i][:120] if i < len(o["out"]) else None, mo[i][:120] if i < len(mo) else None),
                    {"script": lines, "c": o["out"][max(0, i - 2):i + 2], "model": mo[max(0, i - 2):i + 2]})
        bad = oracle_download(c, f, steps, o["out"], good, lines) if d == "dl" else oracle_upload(c, f, steps, o["out"], good)
        for clause, text in bad[:2]:
            # "success although incomplete" is an open finding for requests that name the file being transferred; the signature carries the
            # class of scenario so that the same outcome reached another way (e.g. by a request for ANOTHER file) is a new violation
            sig = "oracle:%s:%s" % (d, clause) + (":" + cls if clause == "success-incomplete" else "")
            ck.fail("input", sig, "%s (scenario %s)" % (text, sid), {"script": lines, "observed": [l[:160] for l in o["out"] if l[:2] in ("cb", "st")][-12:]})
        if any(l.startswith("tx c0 7d") or l.startswith("cb segment") for l in o["out"]):
            ck.nontriv((d, cls, c.cot, c.ca, c.ioa, c.mx, tuple(f.lens) if ".noise." not in sid else ()))
        if len(ck.samples) < 6 and (sid.endswith(".0") or ".sz.223.249" in sid or "callsec-neg" in sid):
            ck.sample({"scenario": sid, "file": f.lens, "max_asdu": c.mx, "trace_tail": [l[:100] for l in o["out"][-4:]]})
    ck.extra["disagreements"] = ndiff
    ck.extra["exhaustive"] = False
    ck.notes.append("a timeout or an unexpected acknowledgement (state SEND_ABORT) ends a transfer without telling the provider / receiver; the property only requires the notification for procedure-following masters, so this is recorded as an observation")


def replay(ck, path):
    r = json.loads(Path(path).read_text())["replay"]
    res = runner.run_batch(harness(), [("replay", r.get("script", []))])
    print("\n".join(l[:200] for l in res["replay"]["out"]))
    if res["replay"]["crash"]:
        print(res["replay"]["crash"]["text"])
    ck.evaluations = 1
