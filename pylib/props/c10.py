"""C10 -- no peer input can crash, corrupt or wedge any protocol stack.
proof:   coq/Properties/C10.v: index bounds of the CS104 receive buffer and of the k-buffer in every reachable state, FT 1.2
         frame sizes, totality of ASDU decoding, truncated commands never delivered, protocol errors close / are ignored
         (all about models that C02 C04 C05 C07 C09 C14 execute against the real code on every run)
search:  memory safety, bounded steps and continued service of the REAL stacks are run-time matters: sanitizer builds
         (ASan + UBSan, abort on first report) of the CS104 server and client, the three CS101 link-layer stations, the
         CS101 master/slave pair and the file-service plugin are driven on the simulated HAL with grammar-based near-valid
         frame sequences, mutations, random octets, arbitrary read segmentation, floods without acknowledgement, write
         failures and closes at every step; a witness connection / a valid frame afterwards must still be served
oracle:  no sanitizer report, no hang, no invalid (NULL / shorter than its header) object in a callback, witness served"""
import json
from pathlib import Path
from vf import core, apci, runner
from props import c03, c20
from props import linklib as L

LEVEL = "other"

ELEM = {1: 1, 2: 4, 3: 1, 4: 4, 5: 2, 6: 5, 7: 5, 8: 8, 9: 3, 10: 6, 11: 3, 12: 6, 13: 5, 14: 8, 15: 5, 16: 8, 17: 6, 18: 7, 19: 7, 20: 5, 21: 2,
        30: 8, 31: 8, 32: 9, 33: 12, 34: 10, 35: 10, 36: 12, 37: 12, 38: 10, 39: 11, 40: 11, 45: 1, 46: 1, 47: 1, 48: 3, 49: 3, 50: 5, 51: 4,
        58: 8, 59: 8, 60: 8, 61: 10, 62: 10, 63: 12, 64: 11, 70: 1, 100: 1, 101: 1, 102: 0, 103: 7, 104: 2, 105: 1, 106: 3, 107: 9,
        110: 3, 111: 3, 112: 5, 113: 1, 120: 6, 121: 7, 122: 4, 123: 5, 124: 4, 125: 6, 126: 13, 127: 11}
SYSCMD = [100, 101, 102, 103, 104, 105, 106, 107]


def prebuild():
    c03.harnesses()
    L.h_ll()
    L.h_cs101()
    c20.harness()


def hx(b):
    return bytes(b).hex() if len(b) else "-"


def fuzz_asdu(rng, cot=2, ca=2, ioa=3, maxlen=249, stats=None):
    """near-valid ASDU of any type, then (half of the time) one mutation"""
    r = rng.below(100)
    if r < 45:
        t = rng.choice(sorted(ELEM))
    elif r < 70:
        t = rng.choice(SYSCMD)
    elif r < 85:
        t = rng.choice([120, 121, 122, 123, 124, 125, 126])
    else:
        t = rng.below(256)
    n = rng.choice([1, 1, 1, 2, 3, 10, 127, 0])
    sq = rng.chance(1, 4)
    es = ELEM.get(t, rng.below(12))
    body = bytearray()
    cnt = min(n, 40)
    if sq:
        body += rng.bytes(ioa)
        for _ in range(cnt):
            body += rng.bytes(es)
    else:
        for _ in range(cnt):
            body += (bytes(ioa) if t in SYSCMD and rng.chance(2, 3) else rng.bytes(ioa)) + rng.bytes(es)
    if t == 125 and len(body) > ioa + 3:
        body[ioa + 3] = min(255, max(0, len(body) - ioa - 4 + rng.choice([0, 0, 0, 1, -1, 3])))
    c = rng.choice([6, 6, 6, 7, 8, 3, 5, 13, 20, rng.below(64)]) | (0x80 if rng.chance(1, 10) else 0) | (0x40 if rng.chance(1, 10) else 0)
    hdr = bytearray([t, (n & 127) | (0x80 if sq else 0), c])
    if cot == 2:
        hdr.append(rng.below(256))
    hdr += bytes([rng.choice([1, 1, 2, 255, 0])] + ([rng.choice([0, 0, 255])] if ca == 2 else []))
    a = hdr + body
    m = rng.below(100)
    kind = "asis"
    if m < 20:
        a = a[:rng.below(len(a) + 1)]; kind = "truncated"
    elif m < 30:
        a = a + rng.bytes(rng.range(1, 30)); kind = "extended"
    elif m < 40 and len(a):
        i = rng.below(len(a)); a[i] ^= 1 << rng.below(8); kind = "bitflip"
    elif m < 45:
        a[1] = rng.choice([0, 127, 128, 255]) if len(a) > 1 else 0; kind = "vsq"
    elif m < 50:
        a = a[:len(hdr)]; kind = "header-only"
    if stats is not None:
        stats["asdu:" + kind] = stats.get("asdu:" + kind, 0) + 1
    return bytes(a[:maxlen])


def fuzz_apdu(rng, stats):
    """one CS104 APDU-ish octet string that does not rely on the harness' sequence bookkeeping"""
    r = rng.below(100)
    if r < 15:
        k, f = "u-any", bytes([0x68, 4, rng.below(256) | 3, rng.choice([0, 0, rng.below(256)]), rng.choice([0, 0, rng.below(256)]), rng.choice([0, rng.below(256)])])
    elif r < 30:
        k, f = "s-any", bytes([0x68, 4, 1, rng.choice([0, 0, 1]), rng.below(256), rng.below(256)])
    elif r < 45:
        a = fuzz_asdu(rng, stats=stats)
        k, f = "i-rawseq", bytes([0x68, 4 + len(a), rng.below(128) * 2, rng.below(256), rng.below(256), rng.below(256)]) + a
    elif r < 55:
        L_ = rng.choice([0, 1, 2, 3])
        k, f = "short-length", bytes([0x68, L_]) + rng.bytes(L_)
    elif r < 65:
        L_ = rng.choice([254, 255, 253])
        k, f = "long-length", bytes([0x68, L_, 0, 0, 0, 0]) + rng.bytes(L_ - 4)
    elif r < 75:
        k, f = "bad-start", bytes([rng.choice([0x69, 0x00, 0x10, 0xe5, 0x16])]) + rng.bytes(rng.below(8))
    elif r < 85:
        a = fuzz_asdu(rng, stats=stats)
        full = bytes([0x68, 4 + len(a), 0, 0, 0, 0]) + a
        k, f = "cut-frame", full[:rng.range(1, max(1, len(full) - 1))]
    else:
        k, f = "random", rng.bytes(rng.range(1, 40))
    stats["apdu:" + k] = stats.get("apdu:" + k, 0) + 1
    return f


def chunks(rng, data):
    out, i = [], 0
    while i < len(data):
        n = rng.choice([1, 1, 2, 3, 5, 6, 7, 50, 300])
        out.append(data[i:i + n])
        i += n
    return out


# ------------------------------------------------------------------ A: CS104 server
def gen_server(rng, stats, nops):
    mode = rng.choice([0, 1, 1])
    k = rng.choice([1, 2, 12])
    lines = ["cfg k=%d w=%d t1=15 t2=10 t3=20 mode=%d handlers=%d hret=%d burst=%d bsize=%d term=%d lowq=%d highq=%d maxasdu=%d" % (
        k, rng.choice([1, 8]), mode, rng.choice([127, 127, 64, 0, 5]), rng.below(2), rng.below(4), rng.choice([2, 200]), rng.below(2),
        rng.choice([1, 3, 20]), rng.choice([1, 2, 10]), rng.choice([249, 249, 100])),
        "start", "connect c0 10.0.0.1:1000", "tick", "connect c1 10.0.0.2:1001", "tick"]
    if mode == 1:
        lines += ["rx c1 " + apci.STARTDT_ACT.hex(), "tick"]
    lines += ["rx c0 " + apci.STARTDT_ACT.hex(), "tick"]
    victim, nextc, advd, evid = 0, 2, 0, 0
    for _ in range(nops):
        r = rng.below(100)
        v = "c%d" % victim
        if r < 30:
            a = fuzz_asdu(rng, stats=stats)
            lines.append("rxi %s %s" % (v, hx(a)) if len(a) else "rx %s %s" % (v, hx(fuzz_apdu(rng, stats))))
            lines.append("tick")
        elif r < 45:
            lines.append("rx %s %s" % (v, hx(fuzz_apdu(rng, stats))))
            lines.append("tick")
        elif r < 50:   # flood of well-formed commands whose answers nobody acknowledges (the k window closes, answers are parked until
                       # the response ring is full), then acknowledgements window by window
            n = rng.range(13, 45)
            cmd = rng.choice([apci.asdu(100, 6, 1, bytes([0, 0, 0, 20])), apci.asdu(101, 6, 1, bytes([0, 0, 0, 5])), apci.asdu(103, 6, 1, bytes(3) + bytes(7))])
            for j in range(n):
                lines.append("rxi %s %s" % (v, hx(cmd)))
                if rng.chance(1, 2):
                    lines.append("tick")
            lines.append("tick 2")
            for _ in range(rng.range(1, 5)):
                lines += ["rxs %s" % v, "tick %d" % rng.range(1, 14)]
            stats["command-flood"] = stats.get("command-flood", 0) + 1
        elif r < 60:   # several frames, arbitrary segmentation
            data = b"".join(apci.i_frame(rng.below(4), 0, fuzz_asdu(rng, stats=stats)) if rng.chance(1, 2) else fuzz_apdu(rng, stats) for _ in range(rng.range(1, 4)))
            for c in chunks(rng, data):
                lines.append("rx %s %s" % (v, hx(c)))
                if rng.chance(1, 2):
                    lines.append("tick")
            lines.append("tick")
            stats["segmented"] = stats.get("segmented", 0) + 1
        elif r < 70:   # flood of events nobody acknowledges
            for _ in range(rng.range(1, 30)):
                lines.append("enq " + c03.ev_asdu(evid, rng.choice([0, 5, 230])).hex())
                evid += 1
            lines.append("tick %d" % rng.range(1, 4))
            stats["flood"] = stats.get("flood", 0) + 1
        elif r < 75:
            lines.append("wmode %s %d" % (v, rng.choice([1, 2, 0])))
            stats["write-failure"] = stats.get("write-failure", 0) + 1
        elif r < 80 and advd < 12000:
            ms = rng.choice([1, 999, 3000])
            advd += ms
            lines += (["rxs c1", "tick"] if mode == 1 else []) + ["adv %d" % ms, "tick", "rx c1 " + apci.TESTFR_CON.hex(), "tick"]
        elif r < 88:   # abrupt close (possibly in the middle of a frame), then a new victim
            if rng.chance(1, 2):
                lines.append("rx %s %s" % (v, hx(bytes([0x68, 20, 0, 0]))))
            lines += ["peerclose " + v, "tick 2"]
            if nextc < 12:
                victim, nextc = nextc, nextc + 1
                lines += ["connect c%d 10.0.0.1:%d" % (victim, 1000 + victim), "tick", "rx c%d %s" % (victim, apci.STARTDT_ACT.hex()), "tick"]
            stats["abrupt-close"] = stats.get("abrupt-close", 0) + 1
        elif r < 90:   # the victim sends the start of an APDU and goes mute; the SERVER ends the connection; the slot is reused
            lines.append("rx %s %s" % (v, hx(rng.choice([b"\x68", b"\x68\x04", b"\x68\x0e\x00\x00", bytes([0x68, 200]) + rng.bytes(rng.below(60))]))))
            lines.append("tick")
            lines += ["appclose " + v, "tick 2"] if rng.chance(1, 2) else ["wmode %s 1" % v, "rx c1 " + apci.TESTFR_CON.hex(), "tick"] + ["enq " + c03.ev_asdu(evid).hex(), "tick 2", "appclose " + v, "tick 2"]
            evid += 1
            if nextc < 12:
                victim, nextc = nextc, nextc + 1
                lines += ["connect c%d 10.0.0.1:%d" % (victim, 1000 + victim), "tick", "rx c%d %s" % (victim, apci.STARTDT_ACT.hex()), "tick"]
            stats["mute-then-server-close"] = stats.get("mute-then-server-close", 0) + 1
        elif r < 93:
            lines.append("rxs %s %d" % (v, rng.choice([0, 0, -1, 1, 5, -30000])))
            lines.append("tick")
        else:
            lines.append("tick %d" % rng.range(1, 3))
    # witness: still served
    lines += (["rxs c1", "tick"] if mode == 1 else []) + ["rx c1 " + apci.TESTFR_ACT.hex(), "tick", "witness"]   # an S-frame in the stopped state would close c1
    if nextc < 14:
        lines += ["connect c%d 10.0.0.9:999" % nextc, "tick 2", "rx c%d %s" % (nextc, apci.STARTDT_ACT.hex()), "tick", "witness2 c%d" % nextc]
    return lines, mode


def check_server(ck, sid, lines, out, mode):
    # `witness` / `witness2` are unknown commands: the harness ignores them; the trace is split by position instead
    bad = []
    hdr = 2 + 2 + 2
    closed1 = any(l.split()[:3] == ["ev", "c1", "CLOSED"] or l.split() == ["closed", "c1"] for l in out)
    if closed1:
        bad.append(("witness-closed", "the witness connection c1 (which only ever sent valid frames) was closed"))
    tx1 = "".join(l.split()[2] for l in out if l.startswith("tx c1 "))
    if not closed1 and apci.TESTFR_CON.hex() not in tx1:
        bad.append(("witness-unserved", "TESTFR act on the witness connection c1 was not answered after the fuzzed traffic on other connections"))
    last = [l for l in lines if l.startswith("witness2")]
    if last:
        c = last[0].split()[1]
        if not any(l.startswith("ev %s OPENED" % c) for l in out):
            bad.append(("no-new-connection", "a new connection %s was not accepted after the fuzzed traffic" % c))
        elif apci.STARTDT_CON.hex() not in "".join(l.split()[2] for l in out if l.startswith("tx %s " % c)):
            bad.append(("new-connection-unserved", "STARTDT act on the new connection %s was not confirmed" % c))
    # every later connection starts with a valid STARTDT act: it must be confirmed, whatever happened on the slot before
    for i, l in enumerate(lines):
        w = l.split()
        if w[0] == "connect" and w[1] not in ("c0", "c1") and i + 2 < len(lines) and lines[i + 2] == "rx %s %s" % (w[1], apci.STARTDT_ACT.hex()):
            c = w[1]
            if any(x.split()[:3] == ["ev", c, "OPENED"] for x in out) and apci.STARTDT_CON.hex() not in "".join(x.split()[2] for x in out if x.startswith("tx %s " % c)):
                bad.append(("new-connection-unserved", "connection %s was accepted but its STARTDT act (its first octets) was not confirmed: state left behind by the previous connection on the slot?" % c))
                break
    for l in out:
        if l.startswith("cb ") and "asdu=" in l:
            a = l.split("asdu=")[1].split()[0]
            if a == "-" or len(a) // 2 < hdr:
                bad.append(("invalid-object", "callback received an ASDU shorter than its header: " + l[:120]))
            else:
                ck.nontriv(("srv-cb", l.split()[1], a[:12]))
        if l.startswith("sem "):
            bad.append(("semaphore", "semaphore misuse reported by the instrumented HAL: " + l))
    return bad


# ------------------------------------------------------------------ B: CS104 client
def gen_client(rng, stats, nops):
    lines = ["cfg k=%d w=%d t1=15 t2=10 t3=20" % (rng.choice([1, 12]), rng.choice([1, 8])), "connect", "startdt", "step", "rx " + apci.STARTDT_CON.hex(), "step"]
    advd = 0
    for _ in range(nops):
        r = rng.below(100)
        if r < 35:
            a = fuzz_asdu(rng, stats=stats)
            if rng.chance(1, 4):
                lines.append("cbsend 1")
            lines.append("rxi %s" % hx(a) if len(a) else "rx " + hx(fuzz_apdu(rng, stats)))
            lines.append("step")
        elif r < 60:
            lines.append("rx " + hx(fuzz_apdu(rng, stats)))
            lines.append("step")
        elif r < 70:
            data = b"".join(fuzz_apdu(rng, stats) for _ in range(rng.range(1, 4)))
            for c in chunks(rng, data):
                lines.append("rx " + hx(c))
                lines.append("step")
        elif r < 78:
            lines.append("send " + apci.asdu(45, 6, 1, bytes([1, 0, 0, 1])).hex())
        elif r < 82 and advd < 12000:
            ms = rng.choice([1, 999, 3000])
            advd += ms
            lines += ["adv %d" % ms, "step"]
        elif r < 86:
            lines.append("wmode %d" % rng.choice([0, 1, 2]))
        elif r < 92:
            lines += (["rx " + hx(bytes([0x68, 30, 0]))] if rng.chance(1, 2) else []) + ["peerclose", "step 2", "close", "wmode 0", "connect", "startdt", "step", "rx " + apci.STARTDT_CON.hex(), "step"]
            stats["client-reconnect"] = stats.get("client-reconnect", 0) + 1
        else:
            lines.append("step %d" % rng.range(1, 3))
    lines += ["close", "witness", "connect", "startdt", "step 2"]
    return lines


def check_client(ck, sid, lines, out):
    bad = []
    # after the final `connect; startdt` the client must have opened and sent STARTDT act
    tail, seen_open = [], False
    idx = max((i for i, l in enumerate(out) if l.startswith("? witness")), default=-1)
    tail = out[idx + 1:]
    if not any(l.startswith("ev OPENED") for l in tail):
        bad.append(("client-wedged", "after fuzzed server traffic and close, a new connect did not report OPENED"))
    elif apci.STARTDT_ACT.hex() not in "".join(l.split()[-1] for l in tail if l.startswith(("tx ", "raw out"))):
        bad.append(("client-wedged", "after fuzzed server traffic and close, the new connection did not send STARTDT act"))
    for l in out:
        if l.startswith("cb asdu"):
            a = l.split()[2]
            if a == "-" or len(a) // 2 < 6:
                bad.append(("invalid-object", "client callback received an ASDU shorter than its header: " + l[:100]))
            else:
                ck.nontriv(("cli-cb", a[:12]))
        if l.startswith("sem "):
            bad.append(("semaphore", "semaphore misuse reported by the instrumented HAL: " + l))
    return bad


# ------------------------------------------------------------------ C: CS101 link-layer stations
def ft12_fuzz(rng, al, own, stats, asdu=None):
    r = rng.below(100)
    a2 = rng.choice([own, own, own, (1 << (8 * al)) - 1 if al else 0, own ^ 1])
    prm = rng.below(2)
    c = L.ctrl(rng.below(16), prm=prm, dir=rng.below(2), fcb_acd=rng.below(2), fcv_dfc=rng.below(2))
    if r < 25:
        k, f = "fixed", L.fixed(al, c, a2)
    elif r < 55:
        d = asdu if asdu is not None else rng.bytes(rng.choice([0, 1, 5, 20, 200, 255 - 1 - al]))
        d = d[:255 - 1 - al]
        k, f = "variable", L.variable(al, c, a2, d)
    elif r < 60:
        k, f = "e5", b"\xe5"
    elif r < 80:
        base = L.variable(al, c, a2, rng.bytes(rng.range(0, 30))) if rng.chance(1, 2) else L.fixed(al, c, a2)
        g = bytearray(base)
        m = rng.below(5)
        if m == 0:
            g[rng.below(len(g))] ^= 1 << rng.below(8)
        elif m == 1:
            g = g[:rng.range(1, len(g))]
        elif m == 2 and len(g) > 3:
            g[1] = rng.below(256)
        elif m == 3 and len(g) > 3:
            g[1] = g[2] = rng.choice([0, 1, 2, 255])
        else:
            g += rng.bytes(rng.range(1, 5))
        k, f = "mutated", bytes(g)
    else:
        k, f = "random", bytes([rng.choice([0x68, 0x10, 0xe5, rng.below(256)])]) + rng.bytes(rng.below(24))
    stats["ft12:" + k] = stats.get("ft12:" + k, 0) + 1
    return f


def gen_link(rng, stats, kind, al, sc, nops):
    from props import c14
    own = c14.OWN[al]
    lines = list(c14.prelude(kind, al, sc))
    for _ in range(nops):
        r = rng.below(100)
        if r < 70:
            f = ft12_fuzz(rng, al, own, stats)
            lines.append(("rx " if rng.chance(2, 3) else "feed ") + hx(f))
        elif r < 80:
            lines.append("tick %d" % rng.choice([1, 100, 250, 1200, 6000]))
        elif r < 90:
            lines.append({"us": "enq%d %s" % (rng.range(1, 2), hx(rng.bytes(rng.range(1, 200)))), "bal": "send " + hx(rng.bytes(rng.range(1, 200))),
                          "up": rng.choice(["poll1 a=%d" % own, "poll2 a=%d" % own, "send a=%d %s" % (own, hx(rng.bytes(rng.range(1, 100)))), "test a=%d" % own])}[kind])
        else:
            lines.append("run")
    lines += ["run"] * 45
    if kind in ("us", "bal"):
        lines += ["witness", "rx " + hx(L.fixed(al, L.ctrl(9, prm=1), own)), "run"]
    return lines


def check_link(ck, sid, lines, out, kind, al):
    bad = []
    if kind in ("us", "bal"):
        # everything after the last `? witness` echo: the status request must be answered with FC 11 (status of link)
        idx = max((i for i, l in enumerate(out) if l.startswith("? witness")), default=None)
        if idx is None:
            return bad
        txs = [bytes.fromhex(l.split()[1]) for l in out[idx:] if l.startswith("tx ") and l.split()[1] != "-"]
        ok = any(len(f) >= 4 and f[0] == 0x10 and (f[1] & 0x4f) == 11 for f in txs)
        if not ok:
            bad.append(("link-wedged", "%s station (address width %d) does not answer REQUEST STATUS OF LINK after the fuzzed octets (wrote %s)" % (kind, al, [f.hex() for f in txs][:3])))
    return bad


def gen_up_starve(rng, al, sc):
    """unbalanced primary with two slaves: one can be reached (answers REQUEST STATUS OF LINK) but never confirms RESET REMOTE LINK and
    sends rubbish now and then; the other one must keep being served"""
    from props import c14
    a, b = (c14.OWN[al], c14.OWN[al] + 1) if al else (0, 0)
    lines = ["cfg kind=up al=%d sc=%d slaves=%d,%d" % (al, sc, a, b), "autostatus a=%d" % a]
    for i in range(160):
        lines.append("tick %d" % rng.choice([20, 50, 100, 250]))
        if rng.chance(1, 12):
            lines.append("feed " + hx(rng.bytes(rng.range(1, 6))))
    return lines, a, b


def check_up_starve(lines, out, al, b):
    # in the second half of the script some frame must be addressed to the healthy slave
    half = len(out) // 2
    tx_b = 0
    for l in out[half:]:
        if l.startswith("tx 10") and al:
            f = bytes.fromhex(l.split()[1])
            adr = f[2] if al == 1 else f[2] | (f[3] << 8)
            tx_b += adr == b
    if al and tx_b == 0:
        return [("starved", "unbalanced primary (address width %d): slave %d answers the status request but never confirms the reset; slave %d is never addressed any more in the second half of the run (%d trace lines)" % (al, b - 1, b, len(out) - half))]
    return []


# ------------------------------------------------------------------ D: CS101 master + slaves with injected frames
def gen_cs101(rng, stats, nops):
    mode = rng.choice(["bal", "unb"])
    al = rng.choice([1, 2])
    ns = 1 if mode == "bal" else rng.choice([1, 2])
    lines = ["cfg mode=%s al=%d sc=%d slaves=%d q1=5 q2=5 mq=5 tack=200 trep=1000 tls=1500" % (mode, al, rng.below(2), ns)]
    nid = 0
    for r_ in range(nops):
        lines.append("tick 70")
        r = rng.below(100)
        i = rng.range(1, ns)
        sa = L.saddr(al, i - 1)
        if r < 45:   # well-formed frame carrying a fuzzed ASDU, to the master or to a slave
            a = fuzz_asdu(rng, cot=2, ca=2, ioa=3, maxlen=240, stats=stats)
            to_master = rng.chance(1, 2)
            if to_master:
                c = L.ctrl(rng.choice([8, 8, 3, 0, 9, 11]), prm=(1 if mode == "bal" and rng.chance(1, 2) else 0), dir=rng.below(2), fcb_acd=rng.below(2), fcv_dfc=rng.choice([0, 1]))
                addr = 1 if mode == "bal" else sa
            else:
                c = L.ctrl(rng.choice([3, 3, 4]), prm=1, dir=rng.below(2), fcb_acd=rng.below(2), fcv_dfc=1)
                addr = sa
            f = L.variable(al, c, addr, a[:255 - 1 - al])
            lines.append("inject %s %s" % ("m" if to_master else "s%d" % i, hx(f)))
            stats["cs101:inject-asdu"] = stats.get("cs101:inject-asdu", 0) + 1
        elif r < 60:
            f = ft12_fuzz(rng, al, rng.choice([1, sa]), stats)
            lines.append("inject %s %s" % (rng.choice(["m", "s%d" % i]), hx(f)))
        elif r < 75:
            lines.append("enq%d s%d %s" % (rng.range(1, 2), i, L.asdu(nid).hex())); nid += 1
        elif r < 85:
            lines.append("msend s%d %s" % (i, L.asdu(1000 + nid, typ=45, cot=6).hex())); nid += 1
        elif r < 90:   # the application produces faster than the line drains: more than twice the queue size in one go
            cls = rng.range(1, 2)
            for _ in range(rng.range(6, 14)):
                lines.append("enq%d s%d %s" % (cls, i, L.asdu(nid).hex())); nid += 1
            stats["cs101:enqueue-flood"] = stats.get("cs101:enqueue-flood", 0) + 1
        elif r < 93:
            lines.append("mtest s%d" % i)
            stats["cs101:link-test-request"] = stats.get("cs101:link-test-request", 0) + 1
        if mode == "unb":
            for j in range(ns):
                lines.append("poll s%d" % (j + 1))
        lines.append("step m")
        for j in range(ns):
            lines.append("step s%d" % (j + 1))
    return lines, mode, al, ns


def check_cs101(ck, sid, lines, out):
    bad = []
    for l in out:
        if l.startswith("mdeliver") and l.split()[-1] == "NULL":
            bad.append(("invalid-object", "CS101 master handed a NULL ASDU to the application: " + l))
        elif l.startswith(("mdeliver", "sdeliver")):
            a = l.split()[-1]
            if len(a) // 2 < 6:
                bad.append(("invalid-object", "CS101 callback received an ASDU shorter than its header: " + l[:100]))
            else:
                ck.nontriv(("101-cb", l.split()[0], a[:10]))
    return bad


# ------------------------------------------------------------------ E: file-service plugin
def gen_file(rng, stats, nops):
    c = c20.Cfg(rng.choice([1, 2]), rng.choice([1, 2]), rng.choice([1, 2, 3]), rng.choice([30, 100, 249]))
    f = c20.File([rng.range(1, 300) for _ in range(rng.range(1, 4))], seed=rng.below(100), ca=1, ioa=(7 if c.ioa == 1 else 300))
    good = c20.download_script(c, f) if rng.chance(1, 2) else c20.upload_script(c, f)
    lines = [c.line(), f.line(), "recv %d" % rng.below(5)]
    gi = 0
    for _ in range(nops):
        r = rng.below(100)
        if r < 35 and gi < len(good):
            kind, arg, _ = good[gi]; gi += 1
            lines.append("%s %s" % (kind, hx(arg)) if kind in ("rx", "rx2") else "%s %d" % (kind, arg))
        elif r < 80:
            t = rng.choice([120, 121, 122, 123, 124, 125, 126, 127, rng.below(256)])
            body = bytes([f.nof & 255, f.nof >> 8]) + rng.bytes(rng.below(12)) if rng.chance(2, 3) else rng.bytes(rng.below(20))
            a = bytearray(c.asdu(t, rng.choice([13, 13, 5, 7, rng.below(64)]), f.ca, f.ioa if rng.chance(2, 3) else rng.below(70000) % (1 << (8 * c.ioa)), body))
            m = rng.below(6)
            if m == 0:
                a = a[:rng.below(len(a) + 1)]
            elif m == 1 and len(a) > 1:
                a[1] = rng.choice([0, 2, 127, 129, 255])
            elif m == 2 and len(a):
                a[rng.below(len(a))] ^= 1 << rng.below(8)
            lines.append("%s %s" % (rng.choice(["rx", "rx", "rx2"]), hx(a)))
            stats["file:fuzzed-asdu"] = stats.get("file:fuzzed-asdu", 0) + 1
        elif r < 86:   # near-valid segment: the announced length and the octets present disagree
            data = rng.bytes(rng.choice([0, 1, 4, 30]))
            los = rng.choice([len(data), len(data) + 1, 200, 255, 0, max(0, len(data) - 1)])
            a = c.asdu(125, 13, f.ca, f.ioa, bytes([f.nof & 255, f.nof >> 8, rng.choice([1, 1, 2, 0, 255]), los]) + data)
            lines.append("rx " + hx(a))
            stats["file:segment-length-mismatch"] = stats.get("file:segment-length-mismatch", 0) + 1
        elif r < 92:
            lines.append("%s %d" % (rng.choice(["run", "run", "run2"]), rng.range(1, 5)))
        else:
            lines.append("adv %d" % rng.choice([1, 1000, 3001]))
    return lines, c


def check_file(ck, sid, lines, out, c):
    """an object handed to the receiver must consist of octets of the ASDU that was received"""
    bad = []
    pairs, _ = c20.split_trace(lines, out)
    for prod, grp in pairs:
        w = prod.split()
        if w[0] not in ("rx", "rx2") or w[1] == "-":
            continue
        b = bytes.fromhex(w[1])
        if not b or b[0] != 125:
            continue
        avail = len(b) - c.hdr - c.ioa - 4
        for g in grp:
            if g.startswith("cb segment"):
                kv = dict(x.split("=") for x in g.split()[2:] if "=" in x)
                size = int(kv["size"])
                data = kv.get("data", "-")
                if size > max(avail, 0):
                    bad.append(("invalid-object", "file receiver was handed a segment of %d octets, the F_SG_NA_1 ASDU %s carries only %d" % (size, w[1][:60], max(avail, 0))))
                elif size and bytes.fromhex(data) != b[c.hdr + c.ioa + 4:c.hdr + c.ioa + 4 + size]:
                    bad.append(("invalid-object", "segment data handed to the receiver differs from the octets of the ASDU " + w[1][:60]))
                else:
                    ck.nontriv(("file-seg", size))
    return bad


# ------------------------------------------------------------------ run
def run(ck):
    quick = ck.tier == "quick"
    rng = core.Rng(ck.seed)
    ck.explanation = ("partial: theorems (coq/Properties/C10.v) bound every index of the CS104 receive path and the k-buffer in all reachable model states, "
                      "bound FT 1.2 frame sizes, show decoding total and truncated commands undelivered, and that protocol errors only close / are ignored; "
                      "invalid memory accesses, unbounded loops and continued service of the real C code are searched for by sanitizer-instrumented fuzzing "
                      "(counts in input_distribution), not proved")
    ck.trusted = [
        "Coq 8.16.1 kernel; theorems are about the models Apci/Reasm.v, Apci/KBuf.v, Cs104/Server.v, Link/*.v, Asdu/Codec.v, Dispatch/*.v, each tied to the code by its own check on every run (C05 C04 C07 C14 C02 C09)",
        "clang ASan + UBSan (-fno-sanitize-recover) builds of the real library sources; simulated HAL (sockets, serial ports, clock, semaphores) replaces src/hal",
        "a hang is a script that does not finish within the per-batch time limit; the witness clauses are evaluated by Python on the trace",
        "axioms: Print Assumptions per theorem (C10_decoder_total etc. Closed under the global context)",
    ]
    ck.rule = ("grammar-based near-valid ASDUs of every type id (element sizes from the standard's tables) with truncation / extension / bit flips / count changes; "
               "APDUs: any U/S control octets, I-frames with valid (harness-kept) and arbitrary sequence numbers, lengths 0..3 and 253..255, wrong start octets, cut frames, random octets; "
               "arbitrary segmentation; event floods without acknowledgement; write failures; closes in the middle of frames; FT 1.2: all function codes, addresses, broadcast, mutations of "
               "length/checksum/start octets, random octets, clock jumps; file ASDUs of types 120..127 fuzzed in every plugin state. non-trivial = distinct (stack, callback, ASDU prefix) that reached an application callback; "
               "evaluations = operations (script lines: received octets, ticks, closes, API calls) executed on the real stacks, coverage.scripts = scripts")
    ck.coq("C10")
    stats = {}
    hsrv, hcli = c03.harnesses()
    nscr = 400 if quick else 6000
    jobs = []
    # A
    sscripts, smeta = [], {}
    for i in range(nscr):
        lines, mode = gen_server(rng, stats, rng.range(20, 120))
        sscripts.append(("srv%d" % i, lines)); smeta["srv%d" % i] = mode
    # B
    cscripts = [("cli%d" % i, gen_client(rng, stats, rng.range(20, 100))) for i in range(nscr)]
    # C
    lscripts, lmeta = [], {}
    for i in range(nscr):
        kind, al, sc = rng.choice(["us", "bal", "up"]), rng.choice([0, 1, 2]), rng.below(2)
        if kind != "bal" and al == 0:
            al = 1
        lscripts.append(("ll%d" % i, gen_link(rng, stats, kind, al, sc, rng.range(10, 80)))); lmeta["ll%d" % i] = (kind, al)
    # D
    dscripts, dmeta = [], {}
    for i in range(nscr // 2):
        lines, mode, al, ns = gen_cs101(rng, stats, rng.range(20, 80))
        dscripts.append(("cs101_%d" % i, lines)); dmeta["cs101_%d" % i] = (mode, al, ns)
    # E
    fscripts, fmeta = [], {}
    for i in range(nscr):
        lines, c = gen_file(rng, stats, rng.range(10, 80))
        fscripts.append(("file%d" % i, lines)); fmeta["file%d" % i] = c

    nscripts = [0]

    def go(stack, exe, scripts, checker):
        res = runner.run_batch(exe, scripts, timeout=3600 if not quick else 120)
        for sid, lines in scripts:
            o = res.get(sid, dict(out=[], crash=None))
            ck.evaluations += len(lines)        # one evaluation = one operation of a script executed on the real stack
            nscripts[0] += 1
            if o["crash"]:
                ck.fail("input", "crash:%s:%s" % (o["crash"]["kind"], o["crash"]["site"]), "%s: %s at %s" % (stack, o["crash"]["kind"], o["crash"]["site"]),
                        {"script": lines, "stack": stack, "stderr": o["crash"]["text"][-3000:]})
                continue
            for code, text in (checker(sid, lines, o["out"]) if checker else [])[:3]:
                ck.fail("input", "oracle:%s:%s" % (code, stack), text, {"script": lines, "stack": stack, "observed": o["out"][-12:]})
            if len(ck.samples) < 5 and nscripts[0] % 97 == 1:
                ck.sample({"stack": stack, "script": lines[:10], "trace_tail": o["out"][-4:]})
        ck.count("scripts:" + stack, len(scripts))

    go("cs104-server", hsrv, sscripts, lambda sid, lines, out: check_server(ck, sid, lines, out, smeta[sid]))
    go("cs104-client", hcli, cscripts, lambda sid, lines, out: check_client(ck, sid, lines, out))
    go("cs101-link", L.h_ll(), lscripts, lambda sid, lines, out: check_link(ck, sid, lines, out, *lmeta[sid]))
    uscripts, umeta = [], {}
    for i in range(8 if quick else 80):
        al, sc = rng.choice([1, 1, 2]), rng.below(2)
        ul, a_, b_ = gen_up_starve(rng, al, sc)
        uscripts.append(("us%d" % i, ul)); umeta["us%d" % i] = (al, b_)
    go("cs101-link", L.h_ll(), uscripts, lambda sid, lines, out: check_up_starve(lines, out, *umeta[sid]))
    go("cs101-stack", L.h_cs101(), dscripts, lambda sid, lines, out: check_cs101(ck, sid, lines, out))
    go("file-service", c20.harness(), fscripts, lambda sid, lines, out: check_file(ck, sid, lines, out, fmeta[sid]))
    for k_, v in sorted(stats.items()):
        ck.count(k_, v)
    ck.extra["scripts"] = nscripts[0]
    ck.extra["exhaustive"] = False
    ck.extra["disagreements"] = 0


STACKS = {"cs104-server": lambda: c03.harnesses()[0], "cs104-client": lambda: c03.harnesses()[1], "cs101-link": L.h_ll, "cs101-stack": L.h_cs101,
          "file-service": c20.harness}


def replay(ck, path):
    r = json.loads(Path(path).read_text())["replay"]
    exe = STACKS[r.get("stack", "cs104-server")]()
    res = runner.run_batch(exe, [("replay", r.get("script", []))])["replay"]
    print("\n".join(res["out"][-40:]))
    if res["crash"]:
        print("CRASH:", res["crash"]["kind"], res["crash"]["site"])
        ck.fail("input", "crash:%s:%s" % (res["crash"]["kind"], res["crash"]["site"]), "replay reproduces: %s at %s" % (res["crash"]["kind"], res["crash"]["site"]), r)
