"""C17 -- threaded operation: lock discipline, deadlock freedom, data races.

static (proof):  translate/locks.py turns every function of cs104_slave.c, cs104_connection.c, cs101_queue.c, cs101_slave.c,
                 cs101_master.c, link_layer.c into a lock skeleton (coq/gen/LockProgram.v, regenerated each run);
                 Locks/Checker.v checks every skeleton inside Coq against certificates (contracts, lock ranking) and
                 Locks/CheckerSound.v + Locks/Deadlock.v prove once that a checked program keeps the lock discipline on every
                 path and cannot deadlock.  Properties/C17.v instantiates that for the regenerated program.
dynamic (search): harness/h_thr.c runs the real threaded server and client on the simulated HAL with 1..4 application threads;
                 instrumented semaphores (value outside {0,1}, post by non-holder, wait by holder), watchdog for hangs,
                 ASan/UBSan build and a ThreadSanitizer build of the same scenarios.
Data-race freedom is NOT proved: it is searched (TSan)."""
import json, os, re, subprocess, sys, time
from pathlib import Path
from vf import core

sys.path.insert(0, str(core.VERIF / "translate"))
import gen_locks

LEVEL = "other"

TSAN_FLAGS = ["-O1", "-g", "-fno-omit-frame-pointer", "-fsanitize=thread", "-D" + core.GUARD + "=1", "-w"]
# the library destroys its listening socket with Socket_destroy((Socket) serverSocket); the shared simhal allocates a 4-byte
# server socket, so the harness supplies a large enough one (simhal's definition is renamed away for this build only)
SIMHAL_RENAME = ["-DTcpServerSocket_create=SimUnused_TcpServerSocket_create"]


def build_thr(variant):
    """h_thr linked against the ASan/UBSan objects (variant 'asan') or against a ThreadSanitizer build of the library
    (variant 'tsan'; simhal itself is left uninstrumented so that only library code is reported)."""
    rh = core.repo_hash()
    srcs = [core.VERIF / "harness" / "h_thr.c", core.VERIF / "harness" / "simhal" / "simhal.c", core.VERIF / "harness" / "simhal" / "simhal.h"]
    hh = core.file_hash(srcs)
    if variant == "asan":
        objdir = core.build_clib()
        flags = core.SAN_FLAGS
        simflags = core.SAN_FLAGS
    else:
        objdir = core.CACHE / "c17-tsan" / rh
        flags = TSAN_FLAGS
        simflags = ["-O1", "-g", "-fno-omit-frame-pointer", "-w"]
    outdir = core.CACHE / "c17" / rh          # own directory: nothing of this check may land in the shared object dir
    exe = outdir / ("h_thr-%s-%s" % (variant, hh))
    with core.Lock("c17-" + variant):
        if exe.exists():
            return exe
        if variant == "tsan":
            d = core.CACHE / "c17-tsan"
            if d.exists():
                for old in d.iterdir():
                    if old.name != rh:
                        subprocess.run(["rm", "-rf", str(old)])
            objdir.mkdir(parents=True, exist_ok=True)
            if not (objdir / "lib.ok").exists():
                procs = []
                for s in core.LIB_SOURCES:
                    o = objdir / (Path(s).stem + ".o")
                    procs.append(subprocess.Popen(["gcc", "-c", *TSAN_FLAGS, *core.inc_flags(), str(core.LIBROOT / s), "-o", str(o)],
                                                  stdout=subprocess.PIPE, stderr=subprocess.STDOUT, text=True))
                for p in procs:
                    o, _ = p.communicate()
                    if p.returncode:
                        raise RuntimeError("library does not compile with -fsanitize=thread:\n" + o[-3000:])
                (objdir / "lib.ok").write_text("ok")
        d17 = core.CACHE / "c17"
        if d17.exists():
            for old in d17.iterdir():
                if old.name != rh:
                    subprocess.run(["rm", "-rf", str(old)])
        outdir.mkdir(parents=True, exist_ok=True)
        for old in outdir.glob("h_thr-%s-*" % variant):
            old.unlink()
        simo = outdir / ("simhal-%s.o" % variant)
        rc, out = core.sh(["gcc", "-c", *simflags, *SIMHAL_RENAME, *core.inc_flags(), str(srcs[1]), "-o", str(simo)])
        if rc:
            raise RuntimeError("simhal does not build:\n" + out[-3000:])
        objs = [str(o) for o in sorted(objdir.glob("*.o")) if not o.name.startswith("simhal")] + [str(simo)]
        rc, out = core.sh(["gcc", *flags, *core.inc_flags(), str(srcs[0]), *objs, "-o", str(exe), "-lpthread", "-lm"])
        if rc:
            raise RuntimeError("h_thr (%s) does not build:\n%s" % (variant, out[-4000:]))
    return exe


# ------------------------------------------------------------------ static part

CODES = [("post without matching wait", "post-not-held"), ("lock order / self-deadlock", "wait-order"), ("lock order:", "call-order"),
         ("callback", "callback-under-lock"), ("a path ends", "exit-mismatch"), ("paths join", "join-mismatch"),
         ("loop body", "loop-unbalanced"), ("unrecognised", "unrecognised"), ("receiver variable", "assign-held"),
         ("parameter naming", "assign-held"), ("lock required by", "call-pre"), ("cannot name", "call-name"),
         ("certificate", "certificate"), ("call of unknown", "unknown-call"), ("break/continue", "escape")]


def code_of(reason):
    for pre, c in CODES:
        if reason.startswith(pre):
            return c
    return "other"


def coq_report():
    """the Coq checker's own verdict per function: [(function, reason)] for everything that fails (known rows included)"""
    src = ("From Coq Require Import String List.\nFrom L60870 Require Import Locks.Skeleton Locks.Checker gen.LockProgram.\n"
           "Local Open Scope string_scope.\nSet Printing Width 1000000.\n"
           "Eval vm_compute in (String.concat \"@@\" (map (fun x => fst x ++ \"|\" ++ snd x) (report program))).\n")
    tmp = core.CACHE / ("c17_report_%d.v" % os.getpid())
    tmp.write_text(src)
    rc, out = core.sh(["timeout", "300", "coqc", "-Q", str(core.COQ), "L60870", "-w", "-all", str(tmp)], cwd=core.CACHE)
    for ext in (".v", ".vo", ".glob", ".vok", ".vos"):
        try:
            tmp.with_suffix(ext).unlink()
        except FileNotFoundError:
            pass
    try:
        (core.CACHE / ("." + tmp.stem + ".aux")).unlink()
    except FileNotFoundError:
        pass
    if rc != 0:
        return None, out
    m = re.search(r'=\s*"(.*)"(?:%string)?\s*:\s*string', out, flags=re.S)
    if not m:
        return None, out
    body = m.group(1).replace('""', '"')
    rows = []
    for item in body.split("@@"):
        if "|" in item:
            f, why = item.split("|", 1)
            rows.append((f.strip(), " ".join(why.split())))
    return rows, out


def static_part(ck):
    g = {}

    def regen():
        g.update(gen_locks.gen())
    ok = ck.coq("C17", regen=regen, extra_targets=["Locks/Deadlock.vo"])
    if not g:
        g.update(gen_locks.gen())
    meta = g["meta"]
    fns = meta["functions"]
    ck.extra["functions_translated"] = len(fns)
    ck.extra["wait_sites"] = sum(f["waits"] for f in fns.values())
    ck.extra["post_sites"] = sum(f["posts"] for f in fns.values())
    ck.extra["lock_ranking"] = meta["ranks"]
    ck.extra["api_acquirable_classes"] = meta["api_acq"]
    ck.extra["thread_roots"] = meta["thread_roots"]
    ck.extra["known_rows"] = meta["known"]
    ck.extra["externals_assumed_lock_neutral"] = meta["externals"]
    ck.extra["contracts"] = {q: dict(pre=f["pre"], post=f["post"]) for q, f in fns.items() if f["pre"] or f["post"]}
    for q, f in fns.items():
        ck.count("fn:" + f["file"])
        if f["waits"] or f["posts"]:
            ck.nontriv(("locks", q))
        if f["callbacks"]:
            ck.nontriv(("cb", q))
    ck.evaluations += len(fns)
    # translator honesty: externals must be leaves, the primitive must be the plain counting semaphore
    dirty = {e: w for e, w in meta["externals"].items() if "DIRTY" in w or w == "unknown"}
    ck.obligation("translate:externals-are-leaves", not dirty, "%d externals; offending: %s" % (len(meta["externals"]), dirty or "none"))
    for e, w in dirty.items():
        ck.fail("obligation", "translate:external:" + e, "function %s outside the analysed files cannot be shown lock-neutral (%s)" % (e, w), {"theorem": "translation"})
    prim = meta["primitive"]
    ck.obligation("translate:semaphore-primitive", all(prim.values()), "thread_linux.c: Semaphore_create/wait/post are sem_init/sem_wait/sem_post: %s" % prim)
    if not all(prim.values()):
        ck.fail("obligation", "translate:primitive", "thread_linux.c no longer implements Semaphore_* as a plain counting semaphore: %s" % prim, {"theorem": "translation"})
    rows, out = coq_report()
    if rows is None:
        ck.obligation("coq:report", False, "could not evaluate the checker's report")
        ck.fail("obligation", "coq:report", "Coq could not evaluate `report program`", {"coq_output_tail": out[-2000:]})
        return g, []
    known = set(meta["known"])
    ck.obligation("checker:report", True, "%d functions checked inside Coq, %d rejected (%d of them known rows)" % (len(fns), len(rows), sum(1 for f, _ in rows if f in known)))
    explained = False
    for f, why in rows:
        info = fns.get(f, {})
        sig = "lock:%s:%s" % (code_of(why), f)
        where = "%s:%s" % (info.get("file"), info.get("line"))
        wit = g.get("witness", {}).get(f)
        ck.fail("input" if wit else "obligation", sig, "lock discipline violated in %s (%s): %s" % (f, where, why),
                {"function": f, "where": where, "reason": why, "theorem": "C17_current (check_except known program = true)",
                 "witness_path": wit, "witness_theorem": ("coq/gen/LockRefuted.v: C17_%s_refuted" % gen_locks.ident(f)[2:]) if wit else None,
                 "rerun": "cd /verif && bin/check C17   (static part: translate/gen_locks.py + coq/Properties/C17.v)"})
        if f not in known:
            explained = True
    if explained:
        # the failing build of C17_current is explained row by row above
        ck.failures = [x for x in ck.failures if x["signature"] not in ("coq:C17_current",)]
    # path witnesses: every rejected function with a witness has a theorem `exists path, exec ... /\ trace violates the discipline`
    wits = g.get("witness", {})
    if wits:
        # (gen/LockRefuted.v was written by the regeneration step of ck.coq; the names are read under the same lock as the build)
        holder = {}
        def _pa():
            holder["names"] = core.theorems_of(core.COQ / "gen" / "LockRefuted.v")
            return core.print_assumptions("gen.LockRefuted", holder["names"])
        ok2, out2, pares = core.coq_make(["gen/LockRefuted.vo"], then=_pa)
        names = holder.get("names") or core.theorems_of(core.COQ / "gen" / "LockRefuted.v")
        pa = pares[0] if (ok2 and pares) else None
        for n in names:
            good = bool(ok2 and pa and pa.get(n) == "closed")
            ck.obligation(n, good, "witness path checked by vm_compute through PathRun.run_sound; Closed under the global context" if good else "witness did not check: " + out2[-300:])
            if not good:
                ck.fail("obligation", "machinery:witness:" + n, "path witness %s does not check in Coq (Python walker and PathRun.run disagree?)" % n, {"theorem": n, "coq_output_tail": out2[-1500:]})
    ck.extra["refuted_witnesses"] = sorted(wits)
    # stale known rows (the defect was repaired but the finding is still listed) are only noted
    stale = [k for k in known if k not in [f for f, _ in rows]]
    if stale:
        ck.notes.append("known rows that now pass the checker (finding can be closed): %s" % stale)
    # observer callbacks (raw message handlers) under locks: assumption of the model, reported as a finding of its own
    obs = {}
    for q, kind, A in g["mirror"].observed_final:
        obs.setdefault(kind, set()).update(l[0] for l in A)
    for kind, held in sorted(obs.items()):
        ck.fail("obligation", "lock:observer-under-lock:" + kind,
                "%s (debugging tap) is invoked while the library holds %s: a handler that calls any API function taking one of these deadlocks; the proofs assume it does not call back"
                % (kind, ", ".join(sorted(held))), {"kind": kind, "held": sorted(held), "theorem": "model assumption (Observer)"})
    ck.extra["observer_callbacks_under_locks"] = {k: sorted(v) for k, v in obs.items()}
    return g, rows


# ------------------------------------------------------------------ dynamic part

def gen_scenarios(rng, quick):
    sc = []
    n = 0

    def add(kind, **kw):
        nonlocal n
        n += 1
        sc.append(("s%03d" % n, kind + " " + " ".join("%s=%d" % (k, v) for k, v in kw.items())))
    # plain concurrency scenarios (both builds)
    for mode in (0, 1, 2):
        for conns, apps in ((1, 1), (2, 2), (3, 4)):
            add("srv", seed=rng.below(1 << 30), mode=mode, conns=conns, apps=apps, rounds=25 if quick else 80, reent=0,
                raw=rng.below(2), stop=rng.below(3))
    for apps in (1, 2, 4):
        add("cli", seed=rng.below(1 << 30), apps=apps, rounds=25 if quick else 80, reent=0, raw=rng.below(2), close=rng.below(2))
    extra = 16 if quick else 400
    for _ in range(extra):
        if rng.chance(2, 3):
            add("srv", seed=rng.below(1 << 30), mode=rng.below(3), conns=rng.range(1, 4), apps=rng.range(1, 4), rounds=rng.range(10, 40 if quick else 120),
                reent=0, raw=rng.below(2), stop=rng.below(3))
        else:
            add("cli", seed=rng.below(1 << 30), apps=rng.range(1, 4), rounds=rng.range(10, 40 if quick else 120), reent=0, raw=rng.below(2), close=rng.below(2))
    # the application now and then hands over an ASDU that is too large for an APDU (refused by the queue; nothing may stay locked)
    for mode in (0, 1, 2):
        add("srv", seed=rng.below(1 << 30), mode=mode, conns=rng.range(1, 2), apps=rng.range(1, 3), rounds=25 if quick else 80, reent=0, raw=0, stop=0, big=1)
    for apps in (1, 2):
        add("cli", seed=rng.below(1 << 30), apps=apps, rounds=25 if quick else 80, reent=0, raw=0, close=2)     # destroy an open, busy connection
    # several application threads send on one client connection with a small window while the peer acknowledges at once: every
    # acknowledgement lets them race for the free place; never more than k I-frames in flight
    for k_ in (1, 1, 2):
        add("cli", seed=rng.below(1 << 30), apps=4, rounds=25 if quick else 100, reent=0, raw=0, close=0, win=k_)
    plain = list(sc)
    # callbacks that call back into the API (instrumented-semaphore build only)
    sc = []
    for mode in (0, 1, 2):
        add("srv", seed=rng.below(1 << 30), mode=mode, conns=2, apps=1, rounds=20, reent=1, raw=0, stop=0)
    add("cli", seed=rng.below(1 << 30), apps=1, rounds=20, reent=1, raw=0, close=0)
    # stop / destroy while a peer is still connected, with an event handler that calls the API from the CLOSED notification
    # (one connection: the DEACTIVATED path of the open finding is not involved)
    for mode in (0, 1, 2):
        for stop in (0, 2):
            add("srv", seed=rng.below(1 << 30), mode=mode, conns=1, apps=1, rounds=(3000 if stop == 2 else 10), reent=1, raw=0, stop=stop)
    return plain, sc


def run_one(exe, sid, line, env, timeout=60):
    text = "--- %s\n%s\n" % (sid, line)
    try:
        p = subprocess.run([str(exe)], input=text, stdout=subprocess.PIPE, stderr=subprocess.PIPE, text=True, timeout=timeout, env=env, errors="replace")
        return p.returncode, p.stdout.splitlines(), p.stderr
    except subprocess.TimeoutExpired as e:
        out = e.stdout.decode(errors="replace") if isinstance(e.stdout, bytes) else (e.stdout or "")
        return -9, out.splitlines() + ["hang (process timeout)"], "TIMEOUT"


def run_many(exe, scenarios, env, jobs=8):
    """every scenario in its own process (a hang or sanitizer abort then names its scenario), a few at a time"""
    from concurrent.futures import ThreadPoolExecutor
    with ThreadPoolExecutor(max_workers=jobs) as ex:
        futs = [(sid, line, ex.submit(run_one, exe, sid, line, env)) for sid, line in scenarios]
        return [(sid, line) + f.result() for sid, line, f in futs]


def repo_frame(stack):
    for m in re.finditer(r"#\d+ (\S+) (\S+?):(\d+)", stack):
        fn, path = m.group(1), m.group(2)
        if "/lib60870-C/src/" in path and "/hal/" not in path:
            return "%s:%s" % (os.path.basename(path), fn)
    return None


def tsan_races(err):
    """[(signature, text)] for every ThreadSanitizer report in stderr"""
    out = []
    for blk in re.split(r"={10,}\n", err):
        if "WARNING: ThreadSanitizer:" not in blk:
            continue
        kind = re.search(r"WARNING: ThreadSanitizer: ([^\(\n]+)", blk).group(1).strip().replace(" ", "-")
        parts = re.split(r"\n\s*\n", blk)
        frames = []
        for part in parts:
            if re.search(r"^\s*(Read|Write|Previous|Atomic|Mutex|Location is heap|  [A-Z][a-z]+ of size)", part.strip(), flags=re.M) and "#0" in part:
                if re.match(r"\s*(WARNING.*\n)?\s*(Read|Write|Atomic|Previous)", part):
                    fr = repo_frame(part)
                    if fr:
                        frames.append(fr)
        frames = sorted(set(frames))[:2]
        sig = "%s:%s" % (kind if kind != "data-race" else "race", "+".join(frames) if frames else "outside-library")
        out.append((sig, blk.strip()[:3500]))
    return out


def dynamic_part(ck, rng, quick):
    plain, reent = gen_scenarios(rng, quick)
    corpus = core.VERIF / "corpus" / "C17" / "scenarios.txt"
    if corpus.exists():
        cl = [l.strip() for l in corpus.read_text().splitlines() if l.strip() and not l.startswith("#")]
        plain = [("c%03d" % i, l) for i, l in enumerate(cl) if "reent=1" not in l] + plain
        reent = [("r%03d" % i, l) for i, l in enumerate(cl) if "reent=1" in l] + reent
    env_a = dict(os.environ, ASAN_OPTIONS="detect_leaks=0:abort_on_error=0", UBSAN_OPTIONS="print_stacktrace=1:halt_on_error=1")
    env_t = dict(os.environ, TSAN_OPTIONS="halt_on_error=0:report_signal_unsafe=0:history_size=4:second_deadlock_stack=1")
    results = []
    try:
        exe_a = build_thr("asan")
        results += [("asan",) + r for r in run_many(exe_a, plain + reent, env_a)]
    except Exception as e:
        ck.fail("obligation", "machinery:build-asan", "h_thr (ASan) does not build: %s" % str(e)[-400:], {"theorem": "harness"})
    try:
        exe_t = build_thr("tsan")
        tsel = plain
        results += [("tsan",) + r for r in run_many(exe_t, tsel, env_t, jobs=6)]
    except Exception as e:
        ck.fail("obligation", "machinery:build-tsan", "h_thr (TSan) does not build: %s" % str(e)[-400:], {"theorem": "harness"})
    nraces = 0
    for variant, sid, line, rc, out, err in results:
        ck.evaluations += 1
        kind = line.split()[0]
        ck.count("%s:%s%s" % (variant, kind, ":reent" if "reent=1" in line else ""))
        done = [l for l in out if l.startswith("done ")]
        if done:
            nums = dict(kv.split("=") for kv in done[0].split()[2:])
            if any(int(v) > 0 for k, v in nums.items() if k in ("enq", "iframes", "sent", "recv", "asdus")):
                ck.nontriv((variant, line))
            if len(ck.samples) < 6:
                ck.sample({"build": variant, "scenario": line, "output": done[0]})
        rep = {"scenario": line, "build": variant, "script": ["--- " + sid, line], "observed": out[-6:],
               "rerun": "echo '%s' | %s" % (line, "<h_thr-%s>" % variant)}
        for l in out:
            if l.startswith("sem "):
                m = re.match(r"sem \d+ (.*?)( cb=(\S+) api=(\S+))?$", l)
                text = m.group(1)
                cls = "self-deadlock" if "already held by this thread" in text else ("over-post" if "not held" in text else "post-by-non-holder")
                if m.group(3):
                    sig = "sem:%s:%s:cb=%s" % (cls, kind, m.group(3))
                else:
                    sig = "sem:%s:%s" % (cls, kind)
                ck.fail("input", sig, "instrumented semaphore: %s [%s] in scenario `%s`" % (text, (m.group(2) or "").strip(), line), rep)
            if l.startswith("hang"):
                ck.fail("input", "hang:%s%s" % (kind, ":reent" if "reent=1" in line else ""), "scenario did not finish (deadlock watchdog): `%s`" % line, rep)
            if l.startswith("shared "):
                ck.fail("input", "race:shared-decode-object:%s" % kind, "connection threads share an object: %s (scenario `%s`)" % (l.split(None, 1)[1], line), rep)
            if l.startswith("window "):
                ck.fail("input", "atomicity:window:%s" % kind, "k-window test and send are not one atomic step: %s (scenario `%s`)" % (l.split(None, 2)[2], line), rep)
        races = tsan_races(err) if variant == "tsan" else []
        for sig, text in races:
            if sig.endswith(":outside-library"):
                # both accesses in the harness / simulated HAL (socket hand-over through simhal globals): not library code
                ck.count("tsan:ignored-outside-library")
                continue
            nraces += 1
            ck.fail("input", sig, "ThreadSanitizer: %s in scenario `%s`" % (sig, line), dict(rep, tsan_report=text))
        if rc not in (0, 3) and not races and not any(l.startswith("hang") for l in out):
            m = re.search(r"ERROR: AddressSanitizer: ([\w-]+)", err)
            m2 = re.search(r"runtime error: ([^\n]+)", err)
            k = m.group(1) if m else ("ubsan" if m2 else "abort")
            site = repo_frame(err) or "harness"
            ck.fail("input", "crash:%s:%s" % (k, site), "scenario `%s` (%s build) aborted: %s at %s" % (line, variant, k, site), dict(rep, stderr=err[-2500:]))
    ck.extra["tsan_reports"] = nraces
    ck.extra["scenarios"] = len(results)


def bitfield_part(ck):
    """objects shared between threads must be separate memory locations: a struct that carries its own lock (a Semaphore member)
    may not pack flags into bit-fields -- a write to one bit-field is a read-modify-write of its neighbours, whatever lock
    protects them (the defect repaired by fb0625d).  Purely syntactic, over the analysed CS104 files."""
    n = 0
    for rel in ("src/iec60870/cs104/cs104_slave.c", "src/iec60870/cs104/cs104_connection.c"):
        path = core.LIBROOT / rel
        try:
            txt = path.read_text(errors="replace")
        except OSError:
            continue
        txt_nc = re.sub(r"/\*.*?\*/", lambda m: re.sub(r"[^\n]", " ", m.group(0)), txt, flags=re.S)
        for m in re.finditer(r"struct\s+(\w+)\s*\{", txt_nc):
            # body up to the matching brace
            depth, i = 1, m.end()
            while i < len(txt_nc) and depth:
                depth += {"{": 1, "}": -1}.get(txt_nc[i], 0)
                i += 1
            body = txt_nc[m.end():i - 1]
            if "Semaphore" not in body:
                continue
            n += 1
            for bm in re.finditer(r"([A-Za-z_]\w*)\s*:\s*\d+\s*;", body):
                line = txt_nc[:m.end() + bm.start()].count("\n") + 1
                ck.fail("input", "bitfield-in-locked-struct:%s.%s" % (m.group(1), bm.group(1)),
                        "struct %s (%s:%d) carries its own lock and packs the flag `%s` into a bit-field: writing it rewrites the neighbouring bit-fields, "
                        "whichever lock protects them (data race with every locked access to the neighbours)" % (m.group(1), rel.split("/")[-1], line, bm.group(1)),
                        {"file": rel, "line": line, "struct": m.group(1), "member": bm.group(1)})
    ck.count("structs_with_lock_scanned_for_bitfields", n)


def static_state_part(ck):
    """the per-connection locks protect per-connection state: an object with static storage duration that the CS104 client / server
    code WRITES (a file-scope object assigned to inside a function or handed to a pointer variable, or any non-const function-local static) is shared by all
    connections of the process and protected by none of their locks.  Purely syntactic, over the analysed CS104 files; the unchanged
    files have no such object (the file-scope statics are the constant U-format messages and the default parameters, only read)."""
    n = 0
    for rel in ("src/iec60870/cs104/cs104_slave.c", "src/iec60870/cs104/cs104_connection.c"):
        path = core.LIBROOT / rel
        try:
            txt = path.read_text(errors="replace")
        except OSError:
            continue
        t = re.sub(r"/\*.*?\*/", lambda m: re.sub(r"[^\n]", " ", m.group(0)), txt, flags=re.S)
        t = re.sub(r"//[^\n]*", "", t)
        decl = re.compile(r"^([ \t]*)static\s+(?!inline\b)([^;{}()=]*?)\b([A-Za-z_]\w*)\s*((?:\[[^\]]*\])*)\s*(=|;)", re.M)
        body = decl.sub(lambda m: "\n" * m.group(0).count("\n"), t)       # the declarations themselves are not writes
        for m in decl.finditer(t):
            indent, quals, name = m.group(1), m.group(2), m.group(3)
            line = t[:m.start()].count("\n") + 1
            n += 1
            if indent:         # inside a function
                if re.search(r"\bconst\b", quals):
                    continue
                ck.fail("input", "static-state:%s:%s" % (rel.split("/")[-1], name),
                        "%s:%d: function-local static object `%s`: one object for all connections of the process, written under per-connection locks only" % (rel.split("/")[-1], line, name),
                        {"file": rel, "line": line, "object": name})
                continue
            w = re.search(r"(?<![\w.>])%s\s*(?:\[[^\]]*\])*(?:\s*\.\s*\w+)*\s*(?:=(?!=)|\+\+|--|\+=|-=|\|=|&=|\^=)" % re.escape(name), body)
            if not w and not re.search(r"\bconst\b", quals):
                # handed to a pointer variable: whatever is written through that pointer is written to the shared object
                # (an array decays to a pointer to the object itself; a struct assigned by value is a copy and does not count)
                w = re.search(r"=\s*&\s*%s\b" % re.escape(name), body)
                if not w and m.group(4):
                    w = re.search(r"=\s*%s\s*(?:[;+,)])" % re.escape(name), body)
            if w:
                wl = body[:w.start()].count("\n") + 1
                ck.fail("input", "static-state:%s:%s" % (rel.split("/")[-1], name),
                        "%s:%d: file-scope object `%s` (declared at line %d) is written: one object for all connections of the process, protected by none of the per-connection locks" % (rel.split("/")[-1], wl, name, line),
                        {"file": rel, "line": wl, "object": name})
    ck.count("static_objects_scanned", n)


def run(ck):
    ck.explanation = "PARTIAL: lock discipline, lock order and deadlock freedom are proved in Coq on skeletons regenerated from the C source on every run; data-race freedom is not provable with this model and is searched with ThreadSanitizer and instrumented semaphores on the real threaded server / client."
    quick = ck.tier == "quick"
    rng = core.Rng(ck.seed)
    ck.trusted = [
        "Coq 8.16.1 kernel incl. vm_compute (the checker is evaluated on the regenerated program inside Coq); no axioms (Print Assumptions per theorem)",
        "translate/locks.py + gen_locks.py + clang -ast-dump=json: TRANSCRIPTION of each C function into a lock skeleton (control-flow shape, Semaphore_wait/post with class+receiver, calls, function-pointer calls); the certificates they emit (contracts, ranking, facq, api_acq) are NOT trusted, the Coq checker verifies them",
        "lock identity: a lock is (struct type . field, receiver expression); aliasing between receiver expressions is covered (the theorems quantify over all environments), but a receiver EXPRESSION is assumed to denote the same object between a wait and its post unless its root variable is assigned (Assign is tracked and rejected while the lock is held); struct fields on receiver paths (self->slave, self->lowPrioQueue) are assumed stable while locked",
        "functions outside the analysed files (HAL, libc, ASDU/frame codecs, linked list) are assumed lock-neutral and callback-free; the list is in the evidence (externals_assumed_lock_neutral) and each lib60870 one is checked textually to live in a file without Semaphore_ and without calls into the analysed files",
        "callbacks: every call through a function pointer the application can install is modelled as `Callback` = arbitrarily many calls of any public API function on arbitrary objects; EXCEPT raw-message handlers (debugging taps) which are modelled as not calling back (reported as a separate finding when they run under locks)",
        "threads in the deadlock theorem are sequences of lock operations under an arbitrary scheduler; blocking on anything but the analysed semaphores (Thread_destroy = join, socket waits) is not modelled",
        "dynamic search: simulated HAL (harness/simhal) with instrumented POSIX semaphores, real pthreads, gcc ASan/UBSan/TSan runtimes; the OS scheduler picks the interleavings (seeds fix the scenario, not the schedule)",
    ]
    ck.rule = ("static: every function with a body in the six analysed files (no sampling). dynamic: scenarios = {server mode 0/1/2} x {1..3 peers} x {1..4 application threads} "
               "+ client x {1,2,4} application threads + seeded random mixes; peers send STARTDT/GI/commands/S/TESTFR/STOPDT/disconnect with random TCP segmentation; "
               "application threads enqueue / query / send / stop / close concurrently; each scenario in its own process under ASan+instrumented semaphores, and under TSan; "
               "plus callback-re-entry scenarios (handlers call the API). non-trivial = scenario in which frames and API calls actually flowed")
    g, rows = static_part(ck)
    bitfield_part(ck)
    static_state_part(ck)
    dynamic_part(ck, rng, quick)
    ck.notes.append("data-race freedom is searched (TSan + instrumented semaphores), not proved; lock discipline and deadlock order are proved on the regenerated skeletons")


def replay(ck, path):
    r = json.loads(Path(path).read_text())
    rp = r["replay"]
    if "scenario" in rp:
        variant = rp.get("build", "asan")
        exe = build_thr(variant)
        env = dict(os.environ, ASAN_OPTIONS="detect_leaks=0", TSAN_OPTIONS="halt_on_error=0:report_signal_unsafe=0")
        rc, out, err = run_one(exe, "replay", rp["scenario"], env)
        print("\n".join(out))
        print(err[-4000:])
        ck.evaluations = 1
    else:
        g = gen_locks.gen()
        rows, out = coq_report()
        for f, why in rows or []:
            print(f, "--", why)
        ck.evaluations = len(g["meta"]["functions"])


def prebuild():
    gen_locks.gen()
    build_thr("asan")
    build_thr("tsan")
