"""Shared machinery of C01 / C02 / C12 (ASDU / information-object codec).
Independent reference: the byte layout is computed from pylib/props/asdu_spec.py (hand-written from
IEC 60870-5-101 clause 7; no knowledge of the encoders/decoders), the implementation is observed through
harness/h_asdu.c, the table-driven Coq model through driver/d_asdu.ml on the SAME scripts."""
import hashlib, json, re, sys
from pathlib import Path
from vf import core, runner
from props import asdu_spec as S

sys.path.insert(0, str(core.VERIF / "translate"))

CFGS = [(c, a, i) for c in (1, 2) for a in (1, 2) for i in (1, 2, 3)]

TRUSTED = [
    "Coq 8.16.1 kernel incl. vm_compute (table predicates over the regenerated rows); no native_compute; no axioms (Print Assumptions per theorem)",
    "translate/asdu_table.py + clang -ast-dump=json: transcription of the size constants / read and write lists / getElementEx offsets of every "
    "type into coq/gen/AsduTable.v (validated on every run by executing the extracted table-driven model against the compiled C on the same scripts)",
    "coq/Asdu/Layout.v std_len / std_sq_ok / std_one and pylib/props/asdu_spec.py: two hand transcriptions of IEC 60870-5-101 7.3 (cross-checked against each other on every run)",
    "extraction: ExtrOcamlBasic + ExtrOcamlString (row names only); OCaml runner driver/d_asdu.ml used for the correspondence only",
    "harness/h_asdu.c and the generated constructor/getter dispatch: decide which real code paths run; ASan/UBSan runtime for the memory-safety residue of the C code",
    "malloc never fails; sizeOfTypeId = sizeOfVSQ = 1 (the only values the library documents)",
]


def hdr_len(cfg):
    return 2 + cfg[0] + cfg[1]


def le(v, n):
    return [(v >> (8 * i)) & 0xFF for i in range(n)]


def ref_header(cfg, tid, sq, n, cot, oa, ca, test, neg):
    """data unit identifier, IEC 60870-5-101 7.1 / 7.2.1-7.2.4"""
    h = [tid & 0xFF, (0x80 if sq else 0) | (n & 0x7F), (cot & 0x3F) | (0x80 if test else 0) | (0x40 if neg else 0)]
    if cfg[0] == 2:
        h.append(oa & 0xFF)
    h += le(ca, cfg[1])
    return h


def ref_objlen(cfg, t, sq_elem, body):
    return (0 if sq_elem else cfg[2]) + len(body)


def expected_element(cfg, msg, idx):
    """C02 oracle: what CS101_ASDU_getElement(idx) must return for the octets `msg`.
    returns None (no object) or (tid, ioa, body) -- body normalised (reserved SIQ/DIQ bits dropped)"""
    hl = hdr_len(cfg)
    if len(msg) < hl:
        return "nohdr"
    t = S.TYPES.get(msg[0])
    if t is None:
        return None
    sq = bool(msg[1] & 0x80)
    pay = msg[hl:]
    ioa_sz = cfg[2]
    if t.lay == "seq" and sq:
        off = ioa_sz + idx * t.std_len
        if off + t.std_len > len(pay):
            return None
        base = sum(b << (8 * i) for i, b in enumerate(pay[:ioa_sz]))
        return (t.tid, base + idx, t.normalise(pay[off:off + t.std_len]))
    if t.lay == "one":
        off = 0
    else:
        off = idx * (ioa_sz + t.std_len)
    bl = t.body_len(pay[off + ioa_sz:]) if off + ioa_sz <= len(pay) else None
    if bl is None or off + ioa_sz + bl > len(pay):
        return None
    ioa = sum(b << (8 * i) for i, b in enumerate(pay[off:off + ioa_sz]))
    return (t.tid, ioa, t.normalise(pay[off + ioa_sz:off + ioa_sz + bl]))


def parse_el(line):
    """'el <i> null' | 'el <i> t= ioa= b=' -> (i, None | (tid, ioa, body) | 'fault')"""
    w = line.split()
    i = int(w[1])
    if w[2] == "null":
        return i, None
    if w[2] == "fault":
        return i, "fault:" + w[3]
    kv = dict(x.split("=", 1) for x in w[2:])
    b = kv["b"]
    body = "!" if b == "!" else ([] if b == "-" else list(bytes.fromhex(b)))
    return i, (int(kv["t"]), int(kv["ioa"]), body)


def parse_hdr(line):
    if line.strip() == "hdr null":
        return None
    return {k: int(v) for k, v in (x.split("=") for x in line.split()[1:])}


def strip_conly(lines):
    return [l for l in lines if not l.startswith(("gv ", "ex "))]


def gen_args(rng, t):
    a = {}
    for name, kind in t.args():
        if kind == "data":
            a[name] = rng.bytes(rng.below(12))
        else:
            a[name] = S.gen_value(rng, kind)
    return a


def add_line(t, ioa, a):
    body = t.body(a)
    toks = [S.tok(k, a[n]) for n, k in t.args()]
    return "add %d %d %s%s" % (t.tid, ioa, bytes(body).hex() or "-", (" " + " ".join(toks)) if toks else ""), body


def max_ioa(cfg):
    return (1 << (8 * cfg[2])) - 1


# ------------------------------------------------------------------ tools
_tools = {}


def tools(ck=None):
    if _tools:
        return _tools["h"], _tools["m"]
    import gen_asdu
    inc = core.CACHE / "gen" / "asdu_dispatch.inc"
    if not inc.exists():
        gen_asdu.gen()
    tag = hashlib.sha256(inc.read_bytes()).hexdigest()[:8]
    h = core.build_harness("h_asdu_" + tag, ["h_asdu.c"])
    m = None
    try:
        m = core.build_model("asdu", core.COQ / "extract" / "ExtractAsdu.v", [], core.VERIF / "driver" / "d_asdu.ml")
    except Exception as e:
        if ck is not None:
            ck.fail("correspondence", "model-build", "extracted model does not build: %s" % str(e)[-400:], {"theorem": "extraction"})
    _tools["h"], _tools["m"] = h, m
    return h, m


def regen():
    import gen_asdu
    return gen_asdu.gen()


def coq_part(ck, module):
    """translator + proofs; returns the translator's meta data"""
    meta = {}

    def rg():
        meta.update(regen())
    ck.coq(module, regen=rg)
    if not meta:
        meta.update(regen())
    for u in meta.get("unrecognised", []):
        ck.obligation("translate:" + u[:60], False, u)
        ck.fail("obligation", "translate:" + re.sub(r"[^A-Za-z0-9_]+", "-", u.split(":")[0])[:50],
                "asdu_table.py cannot transcribe: %s" % u, {"theorem": "translation", "detail": u})
    ck.obligation("translate:all-rows-recognised", not meta.get("unrecognised"), "%d rows transcribed" % len(meta.get("rows", [])))
    # the two hand transcriptions of the standard must agree
    txt = (core.COQ / "Asdu" / "Layout.v").read_text()
    coq_len = {int(a): int(b) for a, b in re.findall(r"\|\s*(\d+)\s*=>\s*Some \(Fixed (\d+)\)", txt)}
    py_len = {t: S.TYPES[t].std_len for t in S.SUPPORTED if S.TYPES[t].std_len is not None}
    m = re.search(r"match t with ([\d| ]+) => true \| _ => false end\.\n\n\(\* the standard fixes", txt)
    coq_sq = sorted(int(x) for x in re.findall(r"\d+", m.group(1))) if m else None
    py_sq = sorted(t for t in S.SUPPORTED if S.TYPES[t].sq_std)
    same = coq_len == py_len and coq_sq == py_sq
    ck.obligation("spec:Layout.v==asdu_spec.py", same, "std_len of %d fixed-length types, std_sq_ok %s" % (len(py_len), py_sq))
    if not same:
        ck.fail("obligation", "spec:mismatch", "Layout.v and asdu_spec.py disagree about the standard's layout", {"theorem": "spec cross-check"})
    return meta


def run_both(ck, scripts, timeout=900):
    hexe, mexe = tools(ck)
    cres = runner.run_batch(hexe, scripts, timeout=timeout)
    mres = runner.run_batch(mexe, scripts, timeout=timeout) if mexe else None
    return cres, mres


def crash_sig(c):
    site = c["site"]
    if site == "unknown":
        m = re.search(r"in (\w+) /[^\s]*?/(\w+\.c):\d+", c["text"])
        if m:
            site = "%s:%s" % (m.group(2), m.group(1))
    return "crash:%s:%s" % (c["kind"], site)


def correspondence(ck, sid, lines, cout, mout, state):
    """line-by-line comparison of the implementation trace with the model trace"""
    a, b = strip_conly(cout), strip_conly(mout)
    if a == b:
        return True
    state["ndiff"] = state.get("ndiff", 0) + 1
    if state["ndiff"] <= 25:
        k = 0
        while k < min(len(a), len(b)) and a[k] == b[k]:
            k += 1
        ca = a[k] if k < len(a) else "<end>"
        mb = b[k] if k < len(b) else "<end>"
        what = (ca.split() or ["?"])[0]
        tid = state.get("tid_of", {}).get(sid, "")
        ck.fail("correspondence", "diff:%s:%s" % (what, tid), "model and implementation differ in %s at output line %d: C=`%s` model=`%s`" % (sid, k, ca[:160], mb[:160]),
                {"script": lines, "c": ca, "model": mb})
    return False


def replay(ck, path):
    r = json.loads(Path(path).read_text())
    lines = r["replay"].get("script", [])
    hexe, mexe = tools(ck)
    res = runner.run_batch(hexe, [("replay", lines)])["replay"]
    for l in res["out"]:
        print(l)
    if res["crash"]:
        print("CRASH", res["crash"]["kind"], res["crash"]["site"])
        print(res["crash"]["text"][-1200:])
    ck.evaluations = len(lines)


def prebuild():
    regen()
    tools()


# ------------------------------------------------------------------ reference construction semantics (from the property text)
class RefAsdu:
    """what the ASDU under construction must look like after each script line; written from the property text and the
    API documentation: an addition is accepted iff it fits the configured maximum, the element count stays <= 127, the
    type matches the first element and (SQ=1) the address continues the sequence; accepted additions append exactly the
    object's encoding; anything else leaves the ASDU unchanged."""
    def __init__(self, cfg, maxsz):
        self.cfg, self.max = cfg, maxsz
        self.h = None
        self.pay = []
        self.args = []      # (tid, ioa, body) of accepted objects

    def new(self, sq, cot, oa, ca, test, neg):
        self.h = ref_header(self.cfg, 0, sq, 0, cot, oa, ca, test, neg)
        self.pay, self.args = [], []

    def bytes(self):
        return self.h + self.pay

    def count(self):
        return self.h[1] & 0x7F

    def sq(self):
        return bool(self.h[1] & 0x80)

    def hexs(self):
        return bytes(self.bytes()).hex()

    def fits(self, n):
        return len(self.h) + len(self.pay) + n <= self.max

    def add(self, tid, ioa, body):
        n = self.count()
        sq_elem = self.sq() and n > 0
        L = (0 if sq_elem else self.cfg[2]) + len(body)
        ok = n < 127 and self.fits(L)
        why = "fits" if ok else ("count" if n >= 127 else "size")
        if n > 0:
            if self.h[0] != (tid & 0xFF):
                ok, why = False, "type"
            elif self.sq():
                first = sum(b << (8 * i) for i, b in enumerate(self.pay[:self.cfg[2]]))
                if ioa != first + n:
                    ok, why = False, "continuity"
        if ok:
            self.pay += ([] if sq_elem else le(ioa, self.cfg[2])) + list(body)
            self.h[0] = tid & 0xFF
            self.h[1] += 1
            self.args.append((tid, ioa, list(body)))
        return ok, why

    def addraw(self, bs):
        ok = len(self.h) + len(self.pay) + len(bs) <= 256
        if ok:
            self.pay += list(bs)
        return ok

    def set(self, what, v):
        h = self.h
        ci = 2 + self.cfg[0]
        if what == "type":
            h[0] = v & 0xFF
        elif what == "n":
            h[1] = (h[1] & 0x80) | (v & 0x7F)
        elif what == "sq":
            h[1] = (h[1] & 0x7F) | (0x80 if v else 0)
        elif what == "cot":
            h[2] = (h[2] & 0xC0) | (v & 0x3F)
        elif what == "test":
            h[2] = (h[2] & 0x7F) | (0x80 if v else 0)
        elif what == "neg":
            h[2] = (h[2] & 0xBF) | (0x40 if v else 0)
        elif what == "ca":
            top = (1 << (8 * self.cfg[1])) - 1
            v = 0 if v < 0 else min(v, top)
            h[ci:ci + self.cfg[1]] = le(v, self.cfg[1])

    def rm(self):
        self.h[1] &= 0x80
        self.pay, self.args = [], []


def fmt_getters(t, body):
    out = []
    for cfun, _, kind, v in t.getters(body):
        out.append("%s=%s" % (cfun, v if isinstance(v, str) else int(v)))
    return " ".join(out)


def check_construction(ck, cfg, maxsz, lines, out, st, check_parse=True):
    """walk script and implementation trace together; returns (failure text, signature) or (None, None)"""
    R = RefAsdu(cfg, maxsz)
    pos = 0

    def nxt():
        nonlocal pos
        if pos >= len(out):
            return None
        l = out[pos]
        pos += 1
        return l

    for ln in lines:
        w = ln.split()
        op = w[0]
        if op == "cfg":
            continue
        if op == "new":
            R.new(*[int(x) for x in w[1:7]])
            l = nxt()
            if l is None:
                return None, None
            if l != "asdu " + R.hexs():
                return "new ASDU is `%s`, expected header %s" % (l, R.hexs()), "oracle:construct:new"
            continue
        if op == "add":
            tid, ioa = int(w[1]), int(w[2])
            body = list(bytes.fromhex(w[3])) if w[3] != "-" else []
            before = R.hexs()
            ok, why = R.add(tid, ioa, body)
            l = nxt()
            if l is None:
                return None, None
            ck.evaluations += 1
            tn = S.TYPES[tid].name
            m = l.split()
            if len(m) != 3 or m[0] != "add":
                return "garbled add line `%s`" % l, "oracle:construct:trace"
            got_ok, got_hex = m[1] == "1", (m[2] if m[2] != "-" else "")
            size = len(got_hex) // 2
            ck.count("add:" + ("accepted" if got_ok else "refused:" + why))
            if size > maxsz or size > 256:
                return "after adding %s (ioa %d) the ASDU has %d octets, configured maximum %d" % (tn, ioa, size, maxsz), "oracle:size:exceeds-maximum:" + tn
            if (int(got_hex[2:4], 16) & 0x7F) > 127:
                return "element count above 127", "oracle:size:count"
            if not got_ok and got_hex != before:
                return "refused addition of %s changed the ASDU: before %s after %s" % (tn, before, got_hex), "oracle:atomic:refusal-changed-asdu"
            if got_ok and not ok:
                return "addition of %s accepted although it must be refused (%s): %s" % (tn, why, got_hex), "oracle:accept:" + why + ":" + tn
            if not got_ok and ok:
                return "addition of %s (%d octets) refused although it fits: %d used of %d" % (tn, (0 if (R.sq() and R.count() > 1) else cfg[2]) + len(body), len(before) // 2, maxsz), "oracle:refused-fitting:" + tn
            if got_ok and got_hex != R.hexs():
                return "accepted addition of %s did not append exactly the object's encoding: got %s expected %s" % (tn, got_hex, R.hexs()), "oracle:append:" + tn
            if got_ok:
                ck.nontriv((tid, cfg, maxsz, size))
            continue
        if op == "addraw":
            bs = list(bytes.fromhex(w[1])) if w[1] != "-" else []
            before = R.hexs()
            ok = R.addraw(bs)
            l = nxt()
            if l is None:
                return None, None
            ck.evaluations += 1
            want = "addraw %d %s" % (1 if ok else 0, R.hexs())
            if l != want:
                return "addPayload of %d octets onto %d: `%s`, expected `%s`" % (len(bs), len(before) // 2, l[:80], want[:80]), "oracle:addpayload"
            continue
        if op in ("set", "rm"):
            if op == "set":
                R.set(w[1], int(w[2]))
            else:
                R.rm()
            l = nxt()
            if l is None:
                return None, None
            ck.evaluations += 1
            if l != "asdu " + R.hexs():
                return "after `%s` the ASDU is `%s`, expected %s" % (ln, l, R.hexs()), "oracle:setter:" + (w[1] if op == "set" else "rm")
            continue
        if op == "clone":
            l = nxt()
            if l is None:
                return None, None
            ck.evaluations += 1
            if l != "clone " + R.hexs():
                return "clone is `%s`, original %s" % (l, R.hexs()), "oracle:clone"
            continue
        if op == "parse":
            l = nxt()
            if l is None:
                return None, None
            msg = R.bytes()
            want = dict(t=msg[0], sq=msg[1] >> 7, n=msg[1] & 0x7F, cot=msg[2] & 0x3F, tst=msg[2] >> 7, neg=(msg[2] >> 6) & 1,
                        oa=msg[3] if cfg[0] == 2 else -1, ca=sum(b << (8 * i) for i, b in enumerate(msg[2 + cfg[0]:2 + cfg[0] + cfg[1]])))
            if parse_hdr(l) != want:
                return "parsed header `%s`, built %s" % (l, want), "oracle:roundtrip:header"
            for i in range(R.count()):
                l = nxt()
                if l is None:
                    return None, None
                ck.evaluations += 1
                tid, ioa, body = R.args[i] if i < len(R.args) else (None, None, None)
                t = S.TYPES.get(tid)
                _, got = parse_el(l) if l.startswith("el ") else (None, "?")
                if check_parse and t is not None and got != (tid, ioa, body):
                    return "element %d parsed back as %s, built from (type %d, ioa %d, body %s)" % (i, got, tid, ioa, bytes(body).hex()), "oracle:roundtrip:element:" + t.name
                g = nxt() if pos < len(out) and out[pos].startswith("gv ") else None
                if check_parse and t is not None and g is not None:
                    wantg = "gv %d %s" % (i, fmt_getters(t, body))
                    if g.rstrip() != wantg.rstrip():
                        a, b = g.split(), wantg.split()
                        d = [(x, y) for x, y in zip(a, b) if x != y][:2]
                        return "getters of parsed element %d of %s: %s (got, expected)" % (i, t.name, d), "oracle:roundtrip:getter:%s" % (d[0][1].split("=")[0] if d else t.name)
                if pos < len(out) and out[pos].startswith("ex "):
                    return "getElementEx with caller storage differs: %s vs %s" % (out[pos], l), "oracle:roundtrip:caller-storage:" + (t.name if t else "?")
            continue
        if op == "reenc":
            l = nxt()
            if l is None:
                return None, None
            ck.evaluations += 1
            if check_parse and l != "reenc " + R.hexs():
                return "re-encoding what was parsed gives `%s`, original %s" % (l[:120], R.hexs()[:120]), "oracle:roundtrip:reencode:" + (S.TYPES[R.h[0]].name if R.h[0] in S.TYPES else "?")
            continue
    return None, None


def run_construction(ck, scripts, meta):
    """scripts: [(sid, lines)], meta[sid] = dict(cfg, max, tid, check_parse)"""
    cres, mres = run_both(ck, scripts)
    st = {"tid_of": {sid: S.TYPES[m["tid"]].name for sid, m in meta.items()}}
    nbad = 0
    for sid, lines in scripts:
        c = cres[sid]
        m = meta[sid]
        if c["crash"]:
            ck.fail("input", crash_sig(c["crash"]), "implementation aborted (%s in %s) while building/parsing %s" %
                    (c["crash"]["kind"], c["crash"]["site"], st["tid_of"][sid]), {"script": lines, "observed": c["out"][-6:], "stderr": c["crash"]["text"][-1500:]})
            ck.count("crash")
        bad, sig = check_construction(ck, m["cfg"], m["max"], lines, c["out"], st, m.get("check_parse", True))
        if bad:
            nbad += 1
            if nbad <= 80:
                ck.fail("input", sig, bad, {"script": lines, "observed": c["out"][-8:]})
        if mres is not None and not c["crash"]:
            correspondence(ck, sid, lines, c["out"], mres[sid]["out"], st)
        if len(ck.samples) < 6 and c["out"] and len(lines) < 14:
            ck.sample({"script": lines[:6], "c_output": c["out"][:6]})
    ck.extra["scripts"] = len(scripts)
    ck.extra["disagreements"] = st.get("ndiff", 0)
    ck.extra["exhaustive"] = False
