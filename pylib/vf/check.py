"""Check object: collects proof obligations, correspondence results and oracle failures,
classifies them against known_findings.jsonl, prints KNOWN-FINDING / VIOLATION lines and
writes evidence/<id>.json."""
import hashlib, json, os, re, sys, time
from pathlib import Path
from . import core

KNOWN = core.VERIF / "known_findings.jsonl"


def load_findings():
    out = []
    if KNOWN.exists():
        for line in KNOWN.read_text().splitlines():
            line = line.strip()
            if line and not line.startswith("#"):
                out.append(json.loads(line))
    return out


class Check:
    def __init__(self, pid, tier, seed, level="proof"):
        self.pid = pid
        self.tier = tier
        self.seed = seed
        self.level = level
        self.t0 = time.time()
        self.obligations = []      # (name, ok, detail)
        self.failures = []         # dict(kind, signature, what, replay)
        self.samples = []
        self.evaluations = 0
        self.nontrivial = set()
        self.rule = ""
        self.distribution = {}
        self.trusted = []
        self.assumptions = []
        self.checker_cmd = ""
        self.extra = {}
        self.notes = []
        self.axioms = {}
        self.explanation = ""

    # ---------------------------------------------------------------- recording
    def obligation(self, name, ok, detail=""):
        self.obligations.append((name, bool(ok), detail))

    def fail(self, kind, signature, what, replay=None):
        """kind: 'input' (concrete failing input against the implementation),
        'obligation' (a theorem/table check no longer checks), 'correspondence' (model and
        implementation disagree)."""
        self.failures.append(dict(kind=kind, signature=signature, what=what, replay=replay or {}))

    def sample(self, s, limit=6):
        if len(self.samples) < limit:
            self.samples.append(s)

    def count(self, key, n=1):
        self.distribution[key] = self.distribution.get(key, 0) + n

    def nontriv(self, key):
        self.nontrivial.add(key)

    # ---------------------------------------------------------------- Coq part
    def coq(self, module, regen=None, extra_targets=()):
        """Build Properties/<module>.vo (and what it depends on, incl. regenerated gen/*.v),
        list its theorems, run Print Assumptions on each.  Returns True when everything checks."""
        bad = core.coq_gate()
        if bad:
            self.obligation("gate:no-axioms-no-admits", False, "; ".join(bad[:5]))
            self.fail("obligation", "gate", "forbidden declaration in development: " + bad[0],
                      {"theorem": "gate", "detail": bad})
            return False
        self.obligation("gate:no-axioms-no-admits", True)
        vfile = core.COQ / "Properties" / (module + ".v")
        targets = ["Properties/%s.vo" % module] + list(extra_targets)
        self.checker_cmd = "cd /verif/coq && coq_makefile -f _CoqProject -o Makefile && make -k -j16 " + " ".join(targets) + \
            "  (coqc 8.16.1, full .vo build; then Print Assumptions on every theorem of Properties/%s.v)" % module
        thms = core.theorems_of(vfile)
        ok, out, pares = core.coq_make(targets, regen=regen, then=lambda: core.print_assumptions("Properties." + module, thms))
        if not ok:
            errs = re.findall(r'File "([^"]+)", line (\d+), characters [^\n]*\n(?:.*\n){0,12}?Error:?([^\n]*(?:\n[^\n]+){0,6})', out)
            first = None
            for f, ln, msg in errs:
                first = (f, int(ln), msg.strip())
                break
            where = "unknown"
            thm = None
            if first:
                f, ln, msg = first
                where = "%s:%d" % (f, ln)
                try:
                    lines = (core.COQ / f).read_text().splitlines()
                    for i in range(min(ln, len(lines)) - 1, -1, -1):
                        m = re.match(r"\s*(?:Theorem|Lemma|Corollary|Definition|Example|Fixpoint)\s+([\w']+)", lines[i])
                        if m:
                            thm = m.group(1)
                            break
                except Exception:
                    pass
            for t in thms:
                self.obligation(t, False, "not checked: build failed at %s (%s)" % (where, thm))
            self.fail("obligation", "coq:%s" % (thm or where),
                      "proof obligation no longer checks: %s in %s" % (thm, where),
                      {"theorem": thm, "file": where, "coq_output_tail": out[-3000:]})
            return False
        pa, paout = pares
        if pa is None:
            for t in thms:
                self.obligation(t, False, "Print Assumptions failed")
            self.fail("obligation", "coq:print-assumptions", "Print Assumptions failed", {"out": paout[-2000:]})
            return False
        allow = {"ClassicalDedekindReals.sig_forall_dec", "ClassicalDedekindReals.sig_not_dec",
                 "FunctionalExtensionality.functional_extensionality_dep", "Classical_Prop.classic",
                 "sig_forall_dec", "sig_not_dec", "functional_extensionality_dep", "classic"}
        good = True
        for t in thms:
            r = pa.get(t)
            if r == "closed":
                self.obligation(t, True, "Qed; Print Assumptions: Closed under the global context")
                self.axioms[t] = []
            elif isinstance(r, list) and all(a.split(".")[-1] in {x.split(".")[-1] for x in allow} for a in r):
                self.obligation(t, True, "Qed; axioms (standard library): " + ", ".join(r))
                self.axioms[t] = r
            else:
                good = False
                self.obligation(t, False, "unexpected assumptions: %r" % (r,))
                self.fail("obligation", "coq:axioms:" + t, "theorem %s depends on unexpected axioms %r" % (t, r),
                          {"theorem": t})
        return good

    # ---------------------------------------------------------------- finish
    def finish(self):
        from vf import runner as _runner
        if self.pid != "C17":          # C17 evaluates semaphore reports itself (callback re-entry scenarios, known findings)
            seen = set()
            for exe, sid, line, script in _runner.SEM_SEEN:
                key = (exe.rsplit("/", 1)[-1].split("-")[0], line.split(None, 2)[-1][:60])
                if key in seen or any(f["signature"].startswith(("oracle:semaphore", "sem:")) for f in self.failures):
                    continue
                seen.add(key)
                self.fail("input", "sem:misuse:" + key[0], "the library misused one of its semaphores (instrumented HAL): %s [script %s]" % (line, sid),
                          {"script": script, "observed": [line], "harness": key[0]})
        findings = load_findings()
        open_f = [f for f in findings if f.get("property") == self.pid and f.get("status") == "open"]
        known_hit = {}
        new = []
        for f in self.failures:
            hit = None
            for k in open_f:
                if f["signature"] == k["signature"] or (k.get("signature_re") and re.fullmatch(k["signature_re"], f["signature"])):
                    hit = k
                    break
            if hit:
                known_hit.setdefault(hit["signature"], hit)
            else:
                new.append(f)
        for sig, k in known_hit.items():
            print("KNOWN-FINDING: property=%s %s" % (self.pid, k["what"]))
        # dedupe new by signature
        by_sig = {}
        for f in new:
            by_sig.setdefault(f["signature"], f)
        inputs = [f for f in by_sig.values() if f["kind"] == "input"]
        others = [f for f in by_sig.values() if f["kind"] != "input"]
        rdir = core.VERIF / "replays" / self.pid
        nviol = 0
        report = []
        if inputs:
            for f in inputs[:12]:
                f["replay"]["broken_obligations"] = [o["what"] for o in others]
                report.append((f, False))
        else:
            for f in others[:12]:
                report.append((f, True))
        for f, noinput in report:
            rdir.mkdir(parents=True, exist_ok=True)
            h = hashlib.sha256((f["signature"] + json.dumps(f["replay"], sort_keys=True, default=str)).encode()).hexdigest()[:12]
            path = rdir / (h + ".json")
            path.write_text(json.dumps(dict(property=self.pid, signature=f["signature"], what=f["what"],
                                            kind=f["kind"], tier=self.tier, seed=self.seed,
                                            rerun="cd /verif && VERIF_SEED=%d bin/check %s --tier %s" % (self.seed, self.pid, self.tier),
                                            replay=f["replay"]), indent=1, default=str))
            print("VIOLATION property=%s replay=%s%s" % (self.pid, path, " no-failing-input-found" if noinput else ""))
            print("  what: " + f["what"][:300])
            nviol += 1
        self.write_evidence(nviol, [k["what"] for k in known_hit.values()])
        sys.stdout.flush()
        return 1 if nviol else 0

    def write_evidence(self, nviol, known):
        nob = len(self.obligations)
        ndis = sum(1 for o in self.obligations if o[1])
        cov = dict(
            obligations=nob, discharged=ndis,
            checker_cmd=self.checker_cmd or "n/a",
            trusted_base=self.trusted,
            obligation_list=[dict(name=n, ok=ok, detail=d) for n, ok, d in self.obligations],
            axioms_per_theorem=self.axioms,
            evaluations=int(self.evaluations),
            distinct_nontrivial=len(self.nontrivial),
            rule=self.rule,
            samples=self.samples or ["(no sample recorded)"],
            input_distribution=self.distribution,
            known_findings_seen=known,
        )
        cov.update(self.extra)
        if self.explanation or self.level == "other":
            cov["explanation"] = self.explanation or "partial: see level text in MANIFEST.json; obligations listed above are the proved part, the rest is covered by the correspondence / oracle counts"
        level = self.level
        if level == "proof" and (nob == 0 or ndis != nob):
            # a proof-level claim needs every obligation discharged; otherwise describe honestly
            cov["explanation"] = "not all proof obligations discharged on this run (%d/%d)" % (ndis, nob)
        ev = dict(property_id=self.pid, tier=self.tier, seed=int(self.seed), level=level, coverage=cov,
                  assumptions=self.assumptions, wall_s=round(time.time() - self.t0, 2), violations=nviol,
                  notes=self.notes)
        d = core.evidence_dir()
        d.mkdir(parents=True, exist_ok=True)
        (d / (self.pid + ".json")).write_text(json.dumps(ev, indent=1, default=str))
