"""CS104 APDU helpers and an independent (standard-derived) reference used by the oracles."""

def i_frame(ns, nr, asdu):
    b = bytes([0x68, 4 + len(asdu), (ns % 128) * 2, (ns // 128) & 255, (nr % 128) * 2, (nr // 128) & 255]) + bytes(asdu)
    return b

def s_frame(nr):
    return bytes([0x68, 4, 1, 0, (nr % 128) * 2, (nr // 128) & 255])

STARTDT_ACT = bytes([0x68, 4, 0x07, 0, 0, 0])
STARTDT_CON = bytes([0x68, 4, 0x0b, 0, 0, 0])
STOPDT_ACT = bytes([0x68, 4, 0x13, 0, 0, 0])
STOPDT_CON = bytes([0x68, 4, 0x23, 0, 0, 0])
TESTFR_ACT = bytes([0x68, 4, 0x43, 0, 0, 0])
TESTFR_CON = bytes([0x68, 4, 0x83, 0, 0, 0])


def split_stream(data):
    """standard framing of a byte stream: returns (frames, error, rest).  error when a start octet is
    not 0x68 or a length octet is 0."""
    frames = []
    i = 0
    while i < len(data):
        if data[i] != 0x68:
            return frames, True, b""
        if i + 1 >= len(data):
            break
        L = data[i + 1]
        if L == 0:
            return frames, True, b""
        if i + 2 + L > len(data):
            break
        frames.append(bytes(data[i:i + 2 + L]))
        i += 2 + L
    return frames, False, bytes(data[i:])


def parse_apdu(f):
    """returns dict(kind='I'|'S'|'U'|'?', ns, nr, asdu, u) ; checks of well-formedness separately"""
    if len(f) < 6:
        return dict(kind="?")
    c1, c2, c3, c4 = f[2], f[3], f[4], f[5]
    if c1 & 1 == 0:
        return dict(kind="I", ns=(c1 >> 1) | (c2 << 7), nr=(c3 >> 1) | (c4 << 7), asdu=bytes(f[6:]))
    if c1 & 3 == 1:
        return dict(kind="S", nr=(c3 >> 1) | (c4 << 7), raw=(c1, c2))
    return dict(kind="U", u=c1, raw=(c2, c3, c4))


def wf_apdu(f):
    """C03: start 0x68, length octet = following octets, 4..253, valid control field"""
    if len(f) < 6 or f[0] != 0x68 or f[1] != len(f) - 2 or not (4 <= f[1] <= 253):
        return False
    c1, c2, c3, c4 = f[2], f[3], f[4], f[5]
    if c1 & 1 == 0:
        return (c3 & 1) == 0
    if c1 & 3 == 1:
        return c1 == 1 and c2 == 0 and (c3 & 1) == 0 and len(f) == 6
    return c1 in (0x07, 0x0b, 0x13, 0x23, 0x43, 0x83) and c2 == 0 and c3 == 0 and c4 == 0 and len(f) == 6


def asdu(typ, cot, ca=1, payload=b"", cot_sz=2, ca_sz=2, vsq=1, oa=0, pn=0, test=0):
    b = bytes([typ, vsq, (cot & 63) | (0x40 if pn else 0) | (0x80 if test else 0)])
    if cot_sz == 2:
        b += bytes([oa])
    b += bytes([ca & 255])
    if ca_sz == 2:
        b += bytes([ca >> 8])
    return b + bytes(payload)
