"""run batches of scripts through a harness / model runner; survive sanitizer aborts"""
import os, re, subprocess

ENV = dict(os.environ, ASAN_OPTIONS="detect_leaks=0:abort_on_error=0:allocator_may_return_null=1",
           UBSAN_OPTIONS="print_stacktrace=1:halt_on_error=1")


SEM_SEEN = []


def _run_watched(exe, text, timeout, stall):
    """run exe with `text` on stdin; returns (stdout, stderr, returncode, timed_out).  Killed when it runs longer than `timeout`
    or writes nothing to stdout for `stall` seconds."""
    import selectors, tempfile, time, os
    with tempfile.TemporaryFile() as ferr, tempfile.TemporaryFile() as fin:
        fin.write(text.encode()); fin.seek(0)
        p = subprocess.Popen([str(exe)], stdin=fin, stdout=subprocess.PIPE, stderr=ferr, env=ENV)
        sel = selectors.DefaultSelector()
        sel.register(p.stdout, selectors.EVENT_READ)
        chunks, t0, tlast, timed = [], time.time(), time.time(), False
        while True:
            ev = sel.select(timeout=1.0)
            now = time.time()
            if ev:
                b = os.read(p.stdout.fileno(), 1 << 16)
                if not b:
                    break
                chunks.append(b)
                tlast = now
            if now - t0 > timeout or now - tlast > stall:
                timed = True
                p.kill()
                break
        if timed:
            for _ in range(50):                  # what is still in the pipe (never wait for children that keep it open)
                if not sel.select(timeout=0.1):
                    break
                b = os.read(p.stdout.fileno(), 1 << 16)
                if not b:
                    break
                chunks.append(b)
        sel.close()
        p.wait()
        ferr.seek(0)
        err = ferr.read().decode(errors="replace")
        out = b"".join(chunks).decode(errors="replace")
        if timed:
            return out, "TIMEOUT", -9, True
        return out, err, p.returncode, False


def run_batch(exe, scripts, timeout=600, per_script_timeout=20, max_hangs=2, stall=150):
    """scripts: list of (id, [lines]).  returns {id: dict(out=[lines], crash=None|text)}.
    A batch that does not finish within `timeout` counts as a hang of the script it stopped in; after a hang the remaining
    scripts get at most 90 s, and after `max_hangs` hangs the rest is not run (one hanging input is a finding; waiting for
    the same loop hundreds of times is not).  Independently of `timeout`, a process that writes nothing for `stall` seconds is
    taken to hang (the harnesses flush at every script marker, so this bounds one script, not the batch)."""
    res = {}
    pending = list(scripts)
    hangs = 0
    while pending:
        text = "".join("--- %s\n%s\n" % (sid, "\n".join(lines)) for sid, lines in pending)
        out, err, rc, timed = _run_watched(exe, text, max(timeout, per_script_timeout), stall)
        cur = None
        seen = []
        for line in out.splitlines():
            if line.startswith("--- "):
                cur = line[4:].strip()
                res[cur] = dict(out=[], crash=None)
                seen.append(cur)
            elif cur is not None:
                res[cur]["out"].append(line)
        if rc == 0 and not timed:
            for sid, _ in pending:
                res.setdefault(sid, dict(out=[], crash=None))
            break
        # the last script seen is the one that crashed / hung
        ids = [sid for sid, _ in pending]
        bad = seen[-1] if seen else ids[0]
        res.setdefault(bad, dict(out=[], crash=None))
        res[bad]["crash"] = classify_crash(err, timed)
        idx = ids.index(bad)
        pending = pending[idx + 1:]
        if timed:
            hangs += 1
            timeout = min(timeout, 90)
            if hangs >= max_hangs:
                break
    # the instrumented semaphores of the simulated HAL print a `sem ...` line only when the library misuses one (wait on a lock the
    # thread already holds, post of a free lock, ...): remember them, whatever the calling check looks at (Check.finish reports them)
    by_id = dict(scripts) if scripts and isinstance(scripts[0], tuple) else {}
    for sid_, r_ in res.items():
        for l_ in r_["out"]:
            if l_.startswith("sem ") and len(SEM_SEEN) < 40:
                SEM_SEEN.append((str(exe), sid_, l_, by_id.get(sid_, [])))
                break
    return res


def classify_crash(err, timed=False):
    if timed:
        return dict(kind="hang", site="timeout", text="no progress within the time limit")
    kind, site = "abort", "unknown"
    m = re.search(r"ERROR: AddressSanitizer: ([\w-]+)", err)
    if m:
        kind = m.group(1)
    m2 = re.search(r"runtime error: ([^\n]+)", err)
    if m2 and not m:
        kind = "ubsan:" + re.sub(r"0x[0-9a-f]+|\d+", "N", m2.group(1))[:60]
    # innermost frame inside the repository
    for fm in re.finditer(r"#\d+ 0x[0-9a-f]+ in (\w+) (/repo/[^\s:]+)", err):
        site = "%s:%s" % (os.path.basename(fm.group(2)), fm.group(1))
        break
    if site == "unknown":
        m3 = re.search(r"(/repo/[^\s:]+):(\d+):\d+: runtime error", err)
        if m3:
            site = os.path.basename(m3.group(1)) + ":" + m3.group(2)
    return dict(kind=kind, site=site, text=err[-1500:])
