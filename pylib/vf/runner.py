"""run batches of scripts through a harness / model runner; survive sanitizer aborts"""
import os, re, subprocess

ENV = dict(os.environ, ASAN_OPTIONS="detect_leaks=0:abort_on_error=0:allocator_may_return_null=1",
           UBSAN_OPTIONS="print_stacktrace=1:halt_on_error=1")


SEM_SEEN = []


def run_batch(exe, scripts, timeout=600, per_script_timeout=20, max_hangs=2):
    """scripts: list of (id, [lines]).  returns {id: dict(out=[lines], crash=None|text)}.
    A batch that does not finish within `timeout` counts as a hang of the script it stopped in; after a hang the remaining
    scripts get at most 90 s, and after `max_hangs` hangs the rest is not run (one hanging input is a finding; waiting for
    the same loop hundreds of times is not)."""
    res = {}
    pending = list(scripts)
    hangs = 0
    while pending:
        text = "".join("--- %s\n%s\n" % (sid, "\n".join(lines)) for sid, lines in pending)
        try:
            p = subprocess.run([str(exe)], input=text, stdout=subprocess.PIPE, stderr=subprocess.PIPE, text=True,
                               timeout=max(timeout, per_script_timeout), env=ENV, errors="replace")
            out, err, rc, timed = p.stdout, p.stderr, p.returncode, False
        except subprocess.TimeoutExpired as e:
            out = (e.stdout or b"").decode(errors="replace") if isinstance(e.stdout, bytes) else (e.stdout or "")
            err, rc, timed = "TIMEOUT", -9, True
        cur = None
        seen = []
        for line in out.splitlines():
            if line.startswith("--- "):
                cur = line[4:].strip()
                res[cur] = dict(out=[], crash=None)
                seen.append(cur)
            elif cur is not None:
                res[cur]["out"].append(line)
        if rc == 0 and not timed:
            for sid, _ in pending:
                res.setdefault(sid, dict(out=[], crash=None))
            break
        # the last script seen is the one that crashed / hung
        ids = [sid for sid, _ in pending]
        bad = seen[-1] if seen else ids[0]
        res.setdefault(bad, dict(out=[], crash=None))
        res[bad]["crash"] = classify_crash(err, timed)
        idx = ids.index(bad)
        pending = pending[idx + 1:]
        if timed:
            hangs += 1
            timeout = min(timeout, 90)
            if hangs >= max_hangs:
                break
    # the instrumented semaphores of the simulated HAL print a `sem ...` line only when the library misuses one (wait on a lock the
    # thread already holds, post of a free lock, ...): remember them, whatever the calling check looks at (Check.finish reports them)
    by_id = dict(scripts) if scripts and isinstance(scripts[0], tuple) else {}
    for sid_, r_ in res.items():
        for l_ in r_["out"]:
            if l_.startswith("sem ") and len(SEM_SEEN) < 40:
                SEM_SEEN.append((str(exe), sid_, l_, by_id.get(sid_, [])))
                break
    return res


def classify_crash(err, timed=False):
    if timed:
        return dict(kind="hang", site="timeout", text="no progress within the time limit")
    kind, site = "abort", "unknown"
    m = re.search(r"ERROR: AddressSanitizer: ([\w-]+)", err)
    if m:
        kind = m.group(1)
    m2 = re.search(r"runtime error: ([^\n]+)", err)
    if m2 and not m:
        kind = "ubsan:" + re.sub(r"0x[0-9a-f]+|\d+", "N", m2.group(1))[:60]
    # innermost frame inside the repository
    for fm in re.finditer(r"#\d+ 0x[0-9a-f]+ in (\w+) (/repo/[^\s:]+)", err):
        site = "%s:%s" % (os.path.basename(fm.group(2)), fm.group(1))
        break
    if site == "unknown":
        m3 = re.search(r"(/repo/[^\s:]+):(\d+):\d+: runtime error", err)
        if m3:
            site = os.path.basename(m3.group(1)) + ":" + m3.group(2)
    return dict(kind=kind, site=site, text=err[-1500:])
