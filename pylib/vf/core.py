"""Shared machinery for every check: paths, hashing of /repo's working tree, cached
sanitizer build of the library + harnesses, Coq build, extraction, evidence, findings."""
import fcntl, hashlib, json, os, re, shutil, subprocess, sys, time
from pathlib import Path

VERIF = Path(__file__).resolve().parents[2]
REPO = Path(os.environ.get("VERIF_REPO", "/repo"))
LIBROOT = REPO / "lib60870-C"
CACHE = VERIF / ".cache"
COQ = VERIF / "coq"
NPROC = int(os.environ.get("VERIF_JOBS", "16"))


def evidence_dir():
    """/verif/evidence describes /repo only.  A run against another tree (VERIF_REPO: the scratch copies the seed tools
    make) writes its evidence under .cache/, so a trial of a changed copy can never replace the committed record of the
    clean tree (that happened once: the snapshot of 2026-10-01 19:01 carried the evidence of ten seed trials)."""
    if os.environ.get("VERIF_EVIDENCE_DIR"):
        return Path(os.environ["VERIF_EVIDENCE_DIR"])
    if REPO.resolve() != Path("/repo"):
        return CACHE / "evidence-other-tree"
    return VERIF / "evidence"

INCLUDES = ["config", "src/inc/api", "src/inc/internal", "src/hal/inc", "src/common/inc",
            "src/file-service"]
LIB_SOURCES = [
    "src/common/linked_list.c",
    "src/hal/memory/lib_memory.c",
    "src/file-service/file_server.c",
    "src/iec60870/apl/cpXXtime2a.c",
    "src/iec60870/cs101/cs101_asdu.c",
    "src/iec60870/cs101/cs101_bcr.c",
    "src/iec60870/cs101/cs101_information_objects.c",
    "src/iec60870/cs101/cs101_master.c",
    "src/iec60870/cs101/cs101_master_connection.c",
    "src/iec60870/cs101/cs101_queue.c",
    "src/iec60870/cs101/cs101_slave.c",
    "src/iec60870/cs104/cs104_connection.c",
    "src/iec60870/cs104/cs104_frame.c",
    "src/iec60870/cs104/cs104_slave.c",
    "src/iec60870/frame.c",
    "src/iec60870/lib60870_common.c",
    "src/iec60870/link_layer/buffer_frame.c",
    "src/iec60870/link_layer/link_layer.c",
    "src/iec60870/link_layer/serial_transceiver_ft_1_2.c",
]
GUARD = "LIB60870_VERIF"
SAN_FLAGS = ["-O1", "-g", "-fno-omit-frame-pointer", "-fsanitize=address,undefined",
             "-fno-sanitize-recover=undefined", "-D" + GUARD + "=1", "-w"]


def log(*a):
    print(*a, file=sys.stderr, flush=True)


def sh(cmd, cwd=None, timeout=None, env=None, check=False, input=None):
    e = dict(os.environ)
    if env:
        e.update(env)
    p = subprocess.run(cmd, cwd=cwd, timeout=timeout, env=e, input=input,
                       stdout=subprocess.PIPE, stderr=subprocess.STDOUT, text=True,
                       shell=isinstance(cmd, str))
    if check and p.returncode != 0:
        raise RuntimeError("command failed (%d): %s\n%s" % (p.returncode, cmd, p.stdout[-4000:]))
    return p.returncode, p.stdout


class Lock:
    """inter-process lock so that concurrently started checks share builds safely"""
    def __init__(self, name):
        CACHE.mkdir(exist_ok=True)
        self.path = CACHE / (name + ".lock")

    def __enter__(self):
        self.f = open(self.path, "w")
        fcntl.flock(self.f, fcntl.LOCK_EX)
        return self

    def __exit__(self, *a):
        fcntl.flock(self.f, fcntl.LOCK_UN)
        self.f.close()


def repo_hash():
    """SHA-256 over every file under lib60870-C/{src,config} of the WORKING TREE."""
    h = hashlib.sha256()
    for sub in ("src", "config"):
        for p in sorted((LIBROOT / sub).rglob("*")):
            if p.is_file() and p.suffix in (".c", ".h"):
                h.update(str(p.relative_to(LIBROOT)).encode())
                h.update(b"\0")
                h.update(p.read_bytes())
                h.update(b"\0")
    return h.hexdigest()[:20]


def file_hash(paths):
    h = hashlib.sha256()
    for p in paths:
        h.update(str(p).encode())
        h.update(Path(p).read_bytes())
    return h.hexdigest()[:16]


def inc_flags():
    return ["-I" + str(LIBROOT / i) for i in INCLUDES] + ["-I" + str(VERIF / "harness" / "simhal"),
                                                           "-I" + str(VERIF / "harness")]


def _prune_cache(keep):
    d = CACHE / "c"
    if not d.exists():
        return
    ents = sorted([p for p in d.iterdir() if p.is_dir()], key=lambda p: p.stat().st_mtime)
    now = time.time()
    for p in ents[:-10]:
        # never remove a directory another (concurrent) run may still be using
        if p.name != keep and now - p.stat().st_mtime > 3600:
            shutil.rmtree(p, ignore_errors=True)


def build_clib():
    """Compile the library sources of the working tree with ASan/UBSan; returns the object dir."""
    rh = repo_hash()
    out = CACHE / "c" / rh
    with Lock("cbuild"):
        stamp = out / "lib.ok"
        if stamp.exists():
            os.utime(out)
            return out
        out.mkdir(parents=True, exist_ok=True)
        _prune_cache(rh)
        jobs = []
        for s in LIB_SOURCES:
            o = out / (Path(s).stem + ".o")
            jobs.append(["gcc", "-c", *SAN_FLAGS, *inc_flags(), str(LIBROOT / s), "-o", str(o)])
        procs = []
        failed = []
        for j in jobs:
            procs.append((j, subprocess.Popen(j, stdout=subprocess.PIPE, stderr=subprocess.STDOUT, text=True)))
            if len(procs) >= NPROC:
                jj, p = procs.pop(0)
                o, _ = p.communicate()
                if p.returncode:
                    failed.append((jj, o))
        for jj, p in procs:
            o, _ = p.communicate()
            if p.returncode:
                failed.append((jj, o))
        if failed:
            raise RuntimeError("library does not compile:\n" + failed[0][1][-3000:])
        stamp.write_text("ok")
    return out


def build_harness(name, sources, whitebox_of=(), extra_flags=(), simhal=True):
    """Link harness `name` from harness/<sources> against the sanitizer objects.
    `whitebox_of`: library object stems that the harness #includes itself (left out of the link)."""
    objdir = build_clib()
    srcs = [VERIF / "harness" / s for s in sources]
    if simhal:
        srcs += sorted((VERIF / "harness" / "simhal").glob("*.c"))
    deps = srcs + sorted((VERIF / "harness").glob("*.h")) + sorted((VERIF / "harness" / "simhal").glob("*.h"))
    hh = file_hash(deps)
    exe = objdir / ("%s-%s" % (name, hh))
    with Lock("hbuild-" + name):
        if exe.exists():
            return exe
        for old in objdir.glob(name + "-*"):
            old.unlink()
        objs = [str(o) for o in sorted(objdir.glob("*.o")) if o.stem not in whitebox_of]
        srcdirs = ["-I" + str(LIBROOT / d) for d in ("src/iec60870/apl", "src/iec60870/cs101", "src/iec60870/cs104",
                                                      "src/iec60870/link_layer", "src/iec60870", "src/common")]
        cmd = ["gcc", *SAN_FLAGS, *extra_flags, *inc_flags(), *srcdirs, "-I" + str(CACHE / "gen"),
               *[str(s) for s in srcs], *objs, "-o", str(exe), "-lpthread", "-lm"]
        rc, out = sh(cmd)
        if rc:
            raise RuntimeError("harness %s does not build:\n%s" % (name, out[-4000:]))
    return exe


# ------------------------------------------------------------------ Coq

FORBIDDEN = re.compile(r"\b(Admitted|admit|Axiom|Parameter|Conjecture|Unset Guard|bypass_check|"
                       r"Admit Obligations|type-in-type|impredicative-set)\b")


def coq_gate():
    """refuse a development that declares axioms / admits anything"""
    bad = []
    for p in sorted(COQ.rglob("*.v")):
        txt = p.read_text()
        txt = re.sub(r"\(\*.*?\*\)", "", txt, flags=re.S)
        for m in FORBIDDEN.finditer(txt):
            bad.append("%s: %s" % (p.relative_to(COQ), m.group(0)))
        # Variable/Hypothesis outside a section
        depth = 0
        for line in txt.splitlines():
            s = line.strip()
            if re.match(r"Section\b", s):
                depth += 1
            elif re.match(r"End\b", s) and depth > 0:
                depth -= 1
            elif depth == 0 and re.match(r"(Variables?|Hypothes[ie]s|Context)\b", s):
                bad.append("%s: %s outside section" % (p.relative_to(COQ), s[:40]))
    return bad


def write_if_changed(path, text):
    path = Path(path)
    if path.exists() and path.read_text() == text:
        return False
    path.parent.mkdir(parents=True, exist_ok=True)
    path.write_text(text)
    return True


def coq_project():
    files = sorted(str(p.relative_to(COQ)) for p in COQ.rglob("*.v") if "scratch" not in p.parts and "extract" not in p.parts)
    txt = "-Q . L60870\n-arg -w -arg -all\n" + "\n".join(files) + "\n"
    changed = write_if_changed(COQ / "_CoqProject", txt)
    if changed or not (COQ / "Makefile").exists():
        sh(["coq_makefile", "-f", "_CoqProject", "-o", "Makefile"], cwd=COQ, check=True)


def coq_make(targets, timeout=1200, regen=None, then=None):
    """make -k the given .vo targets; returns (ok, output).  `regen` (writes coq/gen/*.v from the source tree) runs under the
    same lock as the build, so that no other run can regenerate or compile between the two.  `then` (e.g. Print Assumptions on
    the compiled module) runs under the same lock after a successful build -- another check running in parallel must not rewrite
    a .vo while it is being loaded; its result is returned as third component."""
    with Lock("coq"):
        if regen:
            regen()
        coq_project()
        # every single file is bounded too (a regenerated definition can make a proof script run for ever): 420 s per file
        rc, out = sh(["timeout", "-k", "5", str(timeout), "make", "-k", "-j%d" % NPROC, "COQC=timeout -k 5 420 coqc", *targets], cwd=COQ)
        if rc in (124, 137):
            # make is gone; the compilers it started may not be: nothing may keep compiling in /verif/coq behind our back
            sh(["pkill", "-x", "coqc"], cwd=COQ)
            out += "\nError: build timed out after %d s" % timeout
        if then is not None:
            return rc == 0, out, (then() if rc == 0 else None)
    return rc == 0, out


def theorems_of(vfile):
    txt = Path(vfile).read_text()
    txt = re.sub(r"\(\*.*?\*\)", "", txt, flags=re.S)
    return re.findall(r"^\s*(?:Theorem|Lemma|Corollary)\s+([A-Za-z0-9_']+)", txt, flags=re.M)


def print_assumptions(module, names):
    """returns {name: 'closed' | [axioms]} evaluated by coqtop on the compiled module"""
    src = "Require Import L60870.%s.\n" % module
    for n in names:
        src += 'Goal True. idtac "@@%s". Abort.\nPrint Assumptions %s.\n' % (n, n)
    tmp = CACHE / ("pa_%s_%d.v" % (module.replace(".", "_"), os.getpid()))
    tmp.write_text(src)
    rc, out = sh(["timeout", "600", "coqc", "-Q", str(COQ), "L60870", "-w", "-all", str(tmp)], cwd=CACHE)
    for ext in (".v", ".vo", ".glob", ".vok", ".vos"):
        try:
            tmp.with_suffix(ext).unlink()
        except FileNotFoundError:
            pass
    try:
        (CACHE / ("." + tmp.stem + ".aux")).unlink()
    except FileNotFoundError:
        pass
    res = {}
    if rc != 0:
        return None, out
    cur = None
    buf = []
    for line in out.splitlines():
        if line.startswith("@@"):
            if cur:
                res[cur] = buf
            cur = line[2:].strip()
            buf = []
        elif cur is not None:
            buf.append(line)
    if cur:
        res[cur] = buf
    final = {}
    for n, lines in res.items():
        txt = "\n".join(lines)
        if "Closed under the global context" in txt:
            final[n] = "closed"
        else:
            axs = [a for a in re.findall(r"^([A-Za-z_][\w.']*)\s*:", txt, flags=re.M) if a != "Axioms"]
            final[n] = axs or [txt.strip()[:200]]
    return final, out


def build_model(name, extract_v, ml_sources, main):
    """Extract (coqc on extract_v, which must `Extraction "model_<name>.ml" ...`) and link the OCaml
    runner from driver/zutil.ml + ml_sources + main.  Returns the executable path."""
    # make sure the compiled theories the extraction file imports are up to date with their sources
    deps = []
    if Path(extract_v).is_relative_to(COQ):
        for m in re.finditer(r"From L60870 Require Import ([^.]*(?:\.[A-Za-z_][^. ]*)*)\.\s", Path(extract_v).read_text() + " "):
            for mod in m.group(1).split():
                deps.append(mod.replace(".", "/") + ".vo")
        if deps:
            ok, out = coq_make(deps)
            if not ok:
                raise RuntimeError("theories needed by the extraction do not build:\n" + out[-2000:])
    vos = sorted(COQ.rglob("*.vo"))
    key = hashlib.sha256()
    key.update(Path(extract_v).read_bytes())
    for p in vos:
        key.update(str(p).encode())
        key.update(str(p.stat().st_mtime_ns).encode())
    for p in [VERIF / "driver" / "zutil.ml"] + [Path(x) for x in ml_sources] + [Path(main)]:
        key.update(Path(p).read_bytes())
    out = CACHE / "ml" / name
    exe = out / ("run_%s_%s" % (name, key.hexdigest()[:16]))
    with Lock("ml-" + name):
        if exe.exists():
            return exe
        if out.exists():
            shutil.rmtree(out)
        out.mkdir(parents=True)
        rc, o = sh(["timeout", "600", "coqc", "-Q", str(COQ), "L60870", "-w", "-all", str(extract_v), "-o", str(out / (Path(extract_v).stem + ".vo"))], cwd=out)
        if rc:
            raise RuntimeError("extraction failed:\n" + o[-3000:])
        srcs = []
        for p in [VERIF / "driver" / "zutil.ml"] + [Path(x) for x in ml_sources] + [Path(main)]:
            shutil.copy(p, out / Path(p).name)
        (out / "zutil.ml").write_text("open Model_%s\n" % name + (VERIF / "driver" / "zutil.ml").read_text())
        mods = sorted(out.glob("model_*.ml"))
        order = []
        for m in mods:
            if m.with_suffix(".mli").exists():
                order.append(m.with_suffix(".mli").name)
            order.append(m.name)
        order += ["zutil.ml"] + [Path(x).name for x in ml_sources] + [Path(main).name]
        rc, o = sh(["ocamlfind", "ocamlopt", "-O2", "-w", "-a", "-package", "str", "-linkpkg", *order, "-o", exe.name], cwd=out)
        if rc:
            rc, o = sh(["ocamlfind", "ocamlopt", "-w", "-a", "-package", "str", "-linkpkg", *order, "-o", exe.name], cwd=out)
        if rc:
            raise RuntimeError("OCaml build failed:\n" + o[-3000:])
    return exe


# ------------------------------------------------------------------ PRNG (splitmix64)

class Rng:
    def __init__(self, seed):
        self.s = (seed * 0x9E3779B97F4A7C15 + 0x1234567) & 0xFFFFFFFFFFFFFFFF

    def next(self):
        self.s = (self.s + 0x9E3779B97F4A7C15) & 0xFFFFFFFFFFFFFFFF
        z = self.s
        z = ((z ^ (z >> 30)) * 0xBF58476D1CE4E5B9) & 0xFFFFFFFFFFFFFFFF
        z = ((z ^ (z >> 27)) * 0x94D049BB133111EB) & 0xFFFFFFFFFFFFFFFF
        return z ^ (z >> 31)

    def below(self, n):
        return self.next() % n if n > 0 else 0

    def range(self, a, b):
        return a + self.below(b - a + 1)

    def choice(self, xs):
        return xs[self.below(len(xs))]

    def chance(self, num, den):
        return self.below(den) < num

    def bytes(self, n):
        return bytes(self.below(256) for _ in range(n))
