/* h_life_thr (C18): lifecycle of the REAL threaded CS104 server (CS104_Slave_start: listener thread + one thread per
 * connection; CS104_Slave_stop; restart; destroy) on the simulated HAL.  White-box include of cs104_slave.c only to map
 * callbacks to peers and to count the slots in use; every decision is the library's.
 *
 * input (one scenario per process):  mode=<0|1|2> conns=<n> startdt=<0|1> rounds=<n> maxconn=<n, 0 = leave the default> [pre=1: a threadless run of the same object first]
 * each round: start; n peers connect; [STARTDT on each in turn]; one peer closes; stop; checks.  The next round restarts
 * the same server object.  Finally destroy.
 * trace: `round ...` / `ev p<i> NAME` lines for information, `bad <code> <text>` for every violated expectation, `done`. */
#include <stdio.h>
#include <stdlib.h>
#include <string.h>
#include <pthread.h>
#include <unistd.h>
#include <signal.h>
#include "simhal.h"
#include "cs104_slave.c"

/* the library ends its listener with Socket_destroy((Socket) serverSocket): give it room for a socket struct
   (simhal's own TcpServerSocket_create is renamed away by the build, see pylib/props/c18.py) */
static void* listeners[64]; static int nlisteners = 0;
static int fail_listen = 0;     /* failstart=1: the next TcpServerSocket_create fails (port in use) */
ServerSocket TcpServerSocket_create(const char* address, int port)
{
    (void) address; (void) port;
    if (fail_listen) { fail_listen = 0; return NULL; }
    void* p = calloc(1, sizeof(struct sSocket) + 64);
    if (nlisteners < 64) listeners[nlisteners++] = p;
    return p;
}

#define MAXP 64
static Socket peers[MAXP]; static int npeers = 0;
static pthread_mutex_t mx = PTHREAD_MUTEX_INITIALIZER;
static struct { int peer; int ev; } evlog[4096]; static int nev = 0;
static CS104_Slave slave;
static const char* EVN[] = {"OPENED", "CLOSED", "ACTIVATED", "DEACTIVATED"};

static void on_alarm(int sig) { (void) sig; const char* m = "hang\n"; if (write(1, m, 5) < 0) {} _exit(3); }

static void h_event(void* p, IMasterConnection con, CS104_PeerConnectionEvent ev)
{
    (void) p;
    MasterConnection mc = (MasterConnection) con->object;
    int idx = -1;
    pthread_mutex_lock(&mx);
    for (int i = 0; i < npeers; i++) if (peers[i] && peers[i] == mc->socket) idx = i;
    if (nev < 4096) { evlog[nev].peer = idx; evlog[nev].ev = (int) ev; nev++; }
    pthread_mutex_unlock(&mx);
}

/* connection request callback: turns away request number `deny` (1-based, counted over the process), admits all others */
static int deny = 0, nreq = 0;
static bool h_request(void* p, const char* ip) { (void) p; (void) ip; int n = __sync_add_and_fetch(&nreq, 1); return n != deny; }

static int count_ev(int peer, int ev)
{
    int n = 0;
    pthread_mutex_lock(&mx);
    for (int i = 0; i < nev; i++) if (evlog[i].peer == peer && evlog[i].ev == ev) n++;
    pthread_mutex_unlock(&mx);
    return n;
}
static int count_all(int ev, int from_peer)
{
    int n = 0;
    pthread_mutex_lock(&mx);
    for (int i = 0; i < nev; i++) if (evlog[i].ev == ev && evlog[i].peer >= from_peer) n++;
    pthread_mutex_unlock(&mx);
    return n;
}
static int used_slots(void)
{
    int u = 0;
    for (int i = 0; i < CONFIG_CS104_MAX_CLIENT_CONNECTIONS; i++) { MasterConnection mc = slave->masterConnections[i]; if (mc && mc->isUsed) u++; }
    return u;
}
/* wait (real time, bounded) until cond() holds */
#define WAIT_FOR(cond) do { for (int _w = 0; _w < 20000 && !(cond); _w++) usleep(100); } while (0)

int main(void)
{
    int mode = 0, conns = 1, startdt = 0, rounds = 1, maxconn = 0, late = 0, pre = 0, swtch = 0, failstart = 0;
    char line[256];
    setvbuf(stdout, NULL, _IOLBF, 0);
    if (!fgets(line, sizeof line, stdin)) return 0;
    for (char* t = strtok(line, " \n"); t; t = strtok(NULL, " \n")) {
        int v; char k[32];
        if (sscanf(t, "%31[^=]=%d", k, &v) != 2) continue;
        if (!strcmp(k, "mode")) mode = v; else if (!strcmp(k, "conns")) conns = v; else if (!strcmp(k, "startdt")) startdt = v;
        else if (!strcmp(k, "rounds")) rounds = v; else if (!strcmp(k, "maxconn")) maxconn = v;
        else if (!strcmp(k, "deny")) deny = v; else if (!strcmp(k, "late")) late = v; else if (!strcmp(k, "pre")) pre = v; else if (!strcmp(k, "switch")) swtch = v; else if (!strcmp(k, "failstart")) failstart = v;
    }
    signal(SIGALRM, on_alarm); alarm(60);
    Sim_setTime(1000000);
    slave = CS104_Slave_create(10, 10);
    CS104_Slave_setServerMode(slave, (CS104_ServerMode) mode);
    if (maxconn > 0) CS104_Slave_setMaxOpenConnections(slave, maxconn);
    CS104_Slave_setConnectionEventHandler(slave, h_event, NULL);
    if (deny > 0) CS104_Slave_setConnectionRequestHandler(slave, h_request, NULL);
    int limit = maxconn > 0 ? maxconn : CONFIG_CS104_MAX_CLIENT_CONNECTIONS;
    static const uint8_t STARTDT_ACT[6] = {0x68, 4, 7, 0, 0, 0};

    if (failstart) {
        /* failstart=1: a start that fails (the listening socket cannot be created); with rounds=0 the server is destroyed right after,
           without a stop: every resource of the failed start is released all the same (LeakSanitizer) */
        fail_listen = 1;
        CS104_Slave_start(slave);
        if (CS104_Slave_isRunning(slave)) printf("bad running-after-failed-start the server reports running although its listening socket could not be created\n");
        if (CS104_Slave_getOpenConnections(slave) != 0) printf("bad open-count %d open connections reported after a failed start\n", CS104_Slave_getOpenConnections(slave));
    }
    if (pre) {
        /* pre=1: the same server object is first run in THREADLESS mode (start, a peer connects, a few ticks, stop) and only then
           started with its own threads: starting, stopping in any order and any number of times */
        int l0 = nlisteners;
        CS104_Slave_startThreadless(slave);
        pthread_mutex_lock(&mx); peers[npeers] = Sim_newPeer("10.0.0.250:2999"); npeers++; pthread_mutex_unlock(&mx);
        for (int i = 0; i < 3; i++) CS104_Slave_tick(slave);
        CS104_Slave_stop(slave);
        nlisteners = l0;    /* the threadless stop releases its listener with ServerSocket_destroy (simhal frees it); the threaded one leaves it to this harness */
        if (CS104_Slave_isRunning(slave)) printf("bad still-running server reports running after the stop of its threadless run\n");
        if (CS104_Slave_getOpenConnections(slave) != 0) printf("bad stop-open-nonzero %d open connections reported after the stop of the threadless run\n", CS104_Slave_getOpenConnections(slave));
        if (count_ev(npeers - 1, 0) > 0 && !peers[npeers - 1]->destroyed) printf("bad socket-left-open the socket of p%d is still open after the stop of the threadless run\n", npeers - 1);
    }
    for (int r = 0; r < rounds; r++) {
        CS104_Slave_start(slave);
        if (!CS104_Slave_isRunning(slave)) printf("bad not-running server not running after start (round %d)\n", r);
        usleep(3000);       /* let the listener thread make a few rounds on the table it finds */
        int o0 = CS104_Slave_getOpenConnections(slave);
        if (o0 != 0) printf("bad open-after-restart %d open connections reported right after start number %d, before anybody connected (%d slots in use)\n", o0, r + 1, used_slots());
        int first = npeers; int conns_denied = 0;
        for (int i = 0; i < conns && npeers < MAXP; i++) {
            char a[64]; snprintf(a, sizeof a, "10.0.0.%d:%d", 1 + npeers % 200, 3000 + npeers);
            pthread_mutex_lock(&mx); peers[npeers] = Sim_newPeer(a); npeers++; pthread_mutex_unlock(&mx);
            /* one at a time: the listener thread admits or turns away each before the next is queued */
            int want = (i + 1 < limit ? i + 1 : limit);
            if (deny > 0) { WAIT_FOR(peers[npeers - 1]->destroyed || count_ev(npeers - 1, 0) > 0); if (peers[npeers - 1]->destroyed && count_ev(npeers - 1, 0) == 0) { conns_denied++; } }
            WAIT_FOR(peers[npeers - 1]->destroyed || count_ev(npeers - 1, 0) > 0);
            (void) want;
        }
        int expect = (conns - conns_denied) < limit ? (conns - conns_denied) : limit;
        WAIT_FOR(count_all(0, first) >= expect && CS104_Slave_getOpenConnections(slave) - o0 == expect);
        int opened = count_all(0, first);
        int on = CS104_Slave_getOpenConnections(slave);
        printf("round %d opened=%d open=%d used=%d\n", r, opened, on, used_slots());
        if (opened < expect) printf("bad not-admitted %d of %d connections were reported opened in round %d (limit %d): slots not reusable after stop?\n", opened, expect, r, limit);
        if (opened > expect) printf("bad limit-exceeded %d connections were admitted in round %d, the open-connection limit is %d\n", opened, r, limit);
        if (on - o0 != opened) printf("bad open-count %d open connections reported (%d before the round), %d were opened in round %d\n", on, o0, opened, r);
        if (startdt) {
            for (int i = first; i < npeers; i++) {
                if (count_ev(i, 0) == 0) continue;
                Sim_feed(peers[i], STARTDT_ACT, 6);
                WAIT_FOR(count_ev(i, 2) > 0);
                if (count_ev(i, 2) != 1) printf("bad startdt-not-activated p%d reported ACTIVATED %d times after STARTDT act\n", i, count_ev(i, 2));
            }
        }
        /* one admitted peer closes while the server keeps running: CLOSED, counter decremented */
        int victim = -1;
        for (int i = first; i < npeers; i++) if (count_ev(i, 0) > 0) { victim = i; break; }
        if (swtch && !startdt && victim >= 0) {
            /* switch=1: the started connection is lost and the master switches over at once: STARTDT act on another connection of the
               group right after the lost one was reported CLOSED (before the listener thread has reaped its slot) */
            int other = -1;
            for (int i = victim + 1; i < npeers; i++) if (count_ev(i, 0) > 0) { other = i; break; }
            Sim_feed(peers[victim], STARTDT_ACT, 6);
            WAIT_FOR(count_ev(victim, 2) > 0);
            if (other >= 0) {
                Sim_peerClose(peers[victim]);
                for (long spin = 0; spin < 200000000L && count_ev(victim, 1) == 0; spin++) { }
                Sim_feed(peers[other], STARTDT_ACT, 6);
                WAIT_FOR(count_ev(other, 2) > 0);
                if (count_ev(other, 2) != 1) printf("bad startdt-not-activated p%d reported ACTIVATED %d times after STARTDT act\n", other, count_ev(other, 2));
                WAIT_FOR(CS104_Slave_getOpenConnections(slave) == on - 1);
                victim = -1;        /* already closed */
            }
        }
        if (victim >= 0) {
            Sim_peerClose(peers[victim]);
            WAIT_FOR(count_ev(victim, 1) > 0 && CS104_Slave_getOpenConnections(slave) == on - 1);
            if (count_ev(victim, 1) != 1) printf("bad closed-missing p%d closed by its peer: CLOSED reported %d times\n", victim, count_ev(victim, 1));
            if (CS104_Slave_getOpenConnections(slave) != on - 1) printf("bad open-count %d open connections reported after one of %d was closed by its peer\n", CS104_Slave_getOpenConnections(slave), on);
        }
        /* (late=1) somebody was turned away earlier in this round (limit reached, or the callback said no); now there is room and the
           callback agrees: a further peer must be admitted -- a refusal is about that one attempt */
        if (late && npeers < MAXP && CS104_Slave_getOpenConnections(slave) < limit) {
            int late_req = __sync_add_and_fetch(&nreq, 0) + 1;      /* number this connection request will get at the callback */
            char a[64]; snprintf(a, sizeof a, "10.0.1.%d:%d", 1 + npeers % 200, 3000 + npeers);
            pthread_mutex_lock(&mx); peers[npeers] = Sim_newPeer(a); npeers++; pthread_mutex_unlock(&mx);
            WAIT_FOR(peers[npeers - 1]->destroyed || count_ev(npeers - 1, 0) > 0);
            /* (when this very request is the one the callback was told to turn away, the refusal is the callback's, not a leftover) */
            if (count_ev(npeers - 1, 0) == 0 && !(deny > 0 && late_req == deny))
                printf("bad not-admitted-after-refusal a peer connecting while %d of %d allowed connections are open (callback agreeing) was turned away in round %d; earlier in the round %d attempts were refused\n",
                       CS104_Slave_getOpenConnections(slave), limit, r, (conns - opened) > 0 ? conns - opened : 0);
        }
        CS104_Slave_stop(slave);
        int os = CS104_Slave_getOpenConnections(slave);
        if (os != 0) printf("bad stop-open-nonzero %d open connections reported after stop\n", os);
        if (CS104_Slave_isRunning(slave)) printf("bad still-running server reports running after stop\n");
        for (int i = first; i < npeers; i++) {
            if (count_ev(i, 0) > 0 && count_ev(i, 1) != 1) printf("bad closed-count p%d was opened; CLOSED reported %d times by the end of stop\n", i, count_ev(i, 1));
            if (!peers[i]->destroyed) printf("bad socket-left-open the socket of p%d is still open after stop\n", i);
        }
    }
    /* per connection grammar over the whole log */
    {
        int ph[MAXP]; memset(ph, 0, sizeof ph);     /* 0 none 1 stopped 2 started 3 closed */
        for (int i = 0; i < nev; i++) {
            int p = evlog[i].peer, e = evlog[i].ev;
            printf("ev p%d %s\n", p, EVN[e]);
            if (p < 0) { printf("bad event-unknown-connection %s reported for a connection whose socket is not a known peer\n", EVN[e]); continue; }
            int ok = (ph[p] == 0 && e == 0) || (ph[p] == 1 && (e == 2 || e == 1)) || (ph[p] == 2 && (e == 3 || e == 1));
            if (!ok) printf("bad grammar p%d: %s in phase %d\n", p, EVN[e], ph[p]);
            ph[p] = e == 0 ? 1 : e == 1 ? 3 : e == 2 ? 2 : 1;
        }
    }
    CS104_Slave_destroy(slave);
    for (int i = 0; i < npeers; i++) Sim_freeSocket(peers[i]);
    for (int i = 0; i < nlisteners; i++) free(listeners[i]);
    printf("done\n");
    return 0;
}
