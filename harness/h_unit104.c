/* white-box unit harness for the CS104 internals, compiled once per role:
 *   -DROLE_SERVER : #include cs104_slave.c      (receiveMessage, checkSequenceNumber, MessageQueue_*, HighPriorityASDUQueue_*)
 *   -DROLE_CLIENT : #include cs104_connection.c (receiveMessage, checkSequenceNumber)
 * The functions under test are the library's own; only their arguments are set up here. */
#include <stdio.h>
#include <stdlib.h>
#include <string.h>
#include "simhal.h"
#ifdef ROLE_SERVER
#include "cs104_slave.c"
typedef MasterConnection CON;
#else
#include "cs104_connection.c"
typedef CS104_Connection CON;
#endif

static int hexval(char c) { return c <= '9' ? c - '0' : (c | 32) - 'a' + 10; }
static int unhex(const char* s, uint8_t* out) { if (!strcmp(s, "-")) return 0; int n = (int) strlen(s) / 2; for (int i = 0; i < n; i++) out[i] = (uint8_t) (hexval(s[2 * i]) * 16 + hexval(s[2 * i + 1])); return n; }
static void puthex(const uint8_t* b, int n) { if (n <= 0) printf("-"); for (int i = 0; i < n; i++) printf("%02x", b[i]); }

#ifdef ROLE_SERVER
static CS104_Slave slave;
static MessageQueue mq; static HighPriorityASDUQueue hq;
static struct sCS101_AppLayerParameters alp = {1, 1, 2, 0, 2, 3, 249};
#endif
static CON con;
static Socket sock;

static void fresh(int k)
{
#ifdef ROLE_SERVER
    if (slave) CS104_Slave_destroy(slave);
    slave = CS104_Slave_create(2, 2);
    CS104_Slave_getConnectionParameters(slave)->k = k;
    con = slave->masterConnections[0];
    if (sock) Sim_freeSocket(sock);
    sock = Sim_newPeer("1.2.3.4:5");
    slave->asduQueue = MessageQueue_create(2); slave->connectionAsduQueue = HighPriorityASDUQueue_create(2);
    con->isUsed = 1;
    MasterConnection_init(con, sock, slave->asduQueue, slave->connectionAsduQueue);
    con->isRunning = 1;
#else
    if (con) { con->socket = NULL; CS104_Connection_destroy(con); }
    con = CS104_Connection_create("peer", 2404);
    con->parameters.k = k;
    resetConnection(con);
    if (sock) Sim_freeSocket(sock);
    sock = TcpSocket_create();
    con->socket = sock;
#endif
}

static void kdump(int ret)
{
    printf("kc %d old=%d new=%d slots=", ret, con->oldestSentASDU, con->newestSentASDU);
    for (int i = 0; i < con->maxSentASDUs; i++) printf("%d,", con->sentASDUs[i].seqNo);
    printf("\n");
}

#ifdef ROLE_SERVER
static int asdu_id = 0;
static long out_at[4096]; static unsigned long long out_id[4096]; static int out_n = 0;   /* handed out by next, not yet confirmed */
static CS101_ASDU mk_asdu(sCS101_StaticASDU* st, int size, int id)
{
    CS101_ASDU a = CS101_ASDU_initializeStatic(st, &alp, false, CS101_COT_SPONTANEOUS, 0, 1, false, false);
    CS101_ASDU_setTypeID(a, (IEC60870_5_TypeID) 30);
    CS101_ASDU_setNumberOfElements(a, 1);
    uint8_t pl[256]; memset(pl, 0x5a, sizeof pl); pl[0] = (uint8_t) id; pl[1] = (uint8_t) (id >> 8);
    CS101_ASDU_addPayload(a, pl, size - 6);
    return a;
}
static void mq_dump(void)
{
    printf("mq n=%d first=%ld last=%ld lib=%ld :", mq->entryCounter, mq->firstEntry ? (long) (mq->firstEntry - mq->buffer) : -1,
           mq->lastEntry ? (long) (mq->lastEntry - mq->buffer) : -1, mq->lastInBufferEntry ? (long) (mq->lastInBufferEntry - mq->buffer) : -1);
    if (mq->entryCounter > 0) {
        uint8_t* e = mq->firstEntry; int guard = 0;
        while (e && guard++ < 4096) {
            if (e < mq->buffer || e + sizeof(struct sMessageQueueEntryInfo) > mq->buffer + mq->size) { printf(" OUT-OF-ARENA@%ld", (long) (e - mq->buffer)); break; }
            struct sMessageQueueEntryInfo info; memcpy(&info, e, sizeof info);
            int pid = e[sizeof info + 6] | e[sizeof info + 7] << 8;
            printf(" %llu:%d:%d:%d@%ld", (unsigned long long) info.entryId, info.entryState, info.size, pid, (long) (e - mq->buffer));
            if (e == mq->lastEntry) break;
            if (e == mq->lastInBufferEntry) e = mq->buffer; else e = e + sizeof info + info.size;
        }
        if (guard >= 4096) printf(" LOOP");
    }
    printf("\n");
}
static void hq_dump(void)
{
    printf("hp n=%d first=%ld last=%ld lib=%ld\n", hq->entryCounter, hq->firstEntry ? (long) (hq->firstEntry - hq->buffer) : -1,
           hq->lastEntry ? (long) (hq->lastEntry - hq->buffer) : -1, hq->lastInBufferEntry ? (long) (hq->lastInBufferEntry - hq->buffer) : -1);
}
#endif

int main(void)
{
    static char line[70000]; static uint8_t b[33000];
    setvbuf(stdout, NULL, _IOFBF, 1 << 16);
    while (fgets(line, sizeof line, stdin)) {
        char cmd[32], a1[66000]; int x = 0, y = 0;
        if (sscanf(line, "%31s", cmd) != 1) continue;
        if (!strcmp(cmd, "---")) { fputs(line, stdout); fflush(stdout); continue; }
        if (!strcmp(cmd, "new")) { int k = 12; sscanf(line, "%*s k=%d", &k); fresh(k); }
        else if (!strcmp(cmd, "chunk") || !strcmp(cmd, "close")) {
            if (!strcmp(cmd, "chunk")) { sscanf(line, "%*s %65999s", a1); int n = unhex(a1, b); Sim_feed(sock, b, n); }
            else Sim_peerClose(sock);
            int calls = 0;
            while ((sock->rxLen > 0 || (sock->peerClosed && calls == 0)) && calls < 100000) {
                int r = receiveMessage(con); calls++;
                printf("rm %d pos=%d ", r, con->recvBufPos); if (r > 0) puthex(con->recvBuffer, r); else printf("-"); printf("\n");
                if (r < 0) break;
            }
        }
        else if (!strcmp(cmd, "kset")) {
            int vs, o, nw; sscanf(line, "%*s vs=%d old=%d new=%d slots=%65999s", &vs, &o, &nw, a1);
            con->sendCount = vs; con->oldestSentASDU = o; con->newestSentASDU = nw;
            int i = 0; char* t = strtok(a1, ",");
            while (t && i < con->maxSentASDUs) {
                con->sentASDUs[i].seqNo = atoi(t); con->sentASDUs[i].sentTime = 0;
#ifdef ROLE_SERVER
                con->sentASDUs[i].queueEntry = NULL; con->sentASDUs[i].entryId = 0;
#endif
                i++; t = strtok(NULL, ",");
            }
        }
        else if (!strcmp(cmd, "kchk")) { sscanf(line, "%*s %d", &x); int r = checkSequenceNumber(con, x); kdump(r); }
        else if (!strcmp(cmd, "kfull")) { printf("kf %d\n", isSentBufferFull(con)); }
        else if (!strcmp(cmd, "ksweep")) {
            /* native exhaustive sweep for one k: every rotation of the ring x every occupancy x window
               alignments (incl. straddling 32767->0) x all 32768 N(R); oracle = the modular window rule,
               written from the property text:  accept iff (n - (vs - c)) mod 2^15 <= c, releasing that many */
            int k = 12, stride = 1; sscanf(line, "%*s k=%d stride=%d", &k, &stride);
            fresh(k);
            long long cases = 0, bad = 0;
            for (int rot = 0; rot < k; rot++)
            for (int c = 0; c <= k; c++) {
                int vss[12]; int nv = 0;
                vss[nv++] = c % 32768; vss[nv++] = 0; vss[nv++] = 1; vss[nv++] = 16384; vss[nv++] = 32767; vss[nv++] = 32766;
                vss[nv++] = (c / 2) % 32768; vss[nv++] = (c > 0 ? c - 1 : 0); vss[nv++] = (32768 + c / 2 - 1) % 32768; vss[nv++] = 12345;
                for (int vi = 0; vi < nv; vi++) {
                    int vs = vss[vi];
                    for (int n = 0; n < 32768; n += stride) {
                        con->sendCount = vs;
                        if (c == 0) { con->oldestSentASDU = -1; con->newestSentASDU = -1; }
                        else {
                            con->oldestSentASDU = rot; con->newestSentASDU = (rot + c - 1) % k;
                            for (int j = 0; j < c; j++) {
                                int idx = (rot + j) % k;
                                con->sentASDUs[idx].seqNo = ((vs - c + 1 + j) % 32768 + 32768) % 32768;
                                con->sentASDUs[idx].sentTime = 0;
#ifdef ROLE_SERVER
                                con->sentASDUs[idx].queueEntry = NULL; con->sentASDUs[idx].entryId = 0;
#endif
                            }
                        }
                        int full = isSentBufferFull(con);
                        int r = checkSequenceNumber(con, n);
                        int d = (((n - (vs - c)) % 32768) + 32768) % 32768;
                        int exp = d <= c;
                        int ok = (r == exp) && (full == (c == k));
                        if (ok && exp) {
                            int c2 = c - d;
                            if (c2 == 0) ok = (con->oldestSentASDU == -1);
                            else ok = (con->oldestSentASDU == (rot + d) % k) && (con->newestSentASDU == (rot + c - 1) % k);
                        }
                        else if (ok && c > 0) ok = (con->oldestSentASDU == rot) && (con->newestSentASDU == (rot + c - 1) % k);
                        cases++;
                        if (!ok) { if (bad < 5) printf("kbad k=%d rot=%d c=%d vs=%d n=%d ret=%d old=%d new=%d\n", k, rot, c, vs, n, r, con->oldestSentASDU, con->newestSentASDU); bad++; }
                    }
                }
            }
            printf("kdone k=%d cases=%lld bad=%lld\n", k, cases, bad);
        }
#ifdef ROLE_SERVER
        else if (!strcmp(cmd, "mq")) {
            char sub[32]; sscanf(line, "%*s %31s %d %d", sub, &x, &y);
            if (!strcmp(sub, "new")) { if (mq) MessageQueue_destroy(mq); mq = MessageQueue_create(x); asdu_id = 0; out_n = 0; }
            else if (!strcmp(sub, "enq")) { sCS101_StaticASDU st; MessageQueue_enqueueASDU(mq, mk_asdu(&st, x, asdu_id++)); }
            else if (!strcmp(sub, "next")) {
                uint64_t id = 0; uint8_t* qe = NULL; int sz = 0;
                MessageQueue_lock(mq); uint8_t* p = MessageQueue_getNextWaitingASDU(mq, &id, &qe, &sz); MessageQueue_unlock(mq);
                if (p) { printf("mqnext id=%llu size=%d at=%ld pid=%d\n", (unsigned long long) id, sz, (long) (qe - mq->buffer), p[6] | p[7] << 8);
                         if (out_n < 4096) { out_at[out_n] = (long) (qe - mq->buffer); out_id[out_n] = id; out_n++; } }
                else printf("mqnext none\n");
            }
            else if (!strcmp(sub, "confirm")) { MessageQueue_lock(mq); MessageQueue_markAsduAsConfirmed(mq, mq->buffer + x, (uint64_t) y); MessageQueue_unlock(mq); }
            else if (!strcmp(sub, "confirmoldest")) {
                if (out_n > 0) {
                    printf("mqconfirm at=%ld id=%llu\n", out_at[0], out_id[0]);
                    MessageQueue_lock(mq); MessageQueue_markAsduAsConfirmed(mq, mq->buffer + out_at[0], out_id[0]); MessageQueue_unlock(mq);
                    memmove(out_at, out_at + 1, (out_n - 1) * sizeof out_at[0]); memmove(out_id, out_id + 1, (out_n - 1) * sizeof out_id[0]); out_n--;
                } else printf("mqconfirm none\n");
            }
            else if (!strcmp(sub, "confirmnewest")) {     /* the most recently handed-out entry is confirmed first (its acknowledgement came on another connection of the group) */
                if (out_n > 0) {
                    printf("mqconfirm at=%ld id=%llu\n", out_at[out_n - 1], out_id[out_n - 1]);
                    MessageQueue_lock(mq); MessageQueue_markAsduAsConfirmed(mq, mq->buffer + out_at[out_n - 1], out_id[out_n - 1]); MessageQueue_unlock(mq);
                    out_n--;
                } else printf("mqconfirm none\n");
            }
            /* `mq unconf` (MessageQueue_hasUnconfirmedIMessages) is gone: the library removed that function (fix e71fc44) */
            else if (!strcmp(sub, "avail")) { printf("mqavail %d\n", MessageQueue_isAsduAvailable(mq)); }
            else if (!strcmp(sub, "resetwait")) { MessageQueue_setWaitingForTransmissionWhenNotConfirmed(mq); out_n = 0; }
            else if (!strcmp(sub, "release")) { MessageQueue_releaseAllQueuedASDUs(mq); out_n = 0; }
            mq_dump();
        }
        else if (!strcmp(cmd, "sch")) {
            /* the scheduler on a real connection: sendASDUInternal / sendWaitingASDUs with a given k and high-priority ring size;
               printed: the return value, the ASDUs written (payload ids), the k-buffer occupancy, isRunning, the ring counters */
            char sub[32]; int z = 2; x = 0; sscanf(line, "%*s %31s %d %d %d", sub, &x, &y, &z);
            if (!strcmp(sub, "new")) {
                fresh(x);
                HighPriorityASDUQueue_destroy(slave->connectionAsduQueue);
                slave->connectionAsduQueue = HighPriorityASDUQueue_create(y);
                con->highPrioQueue = slave->connectionAsduQueue;
                MessageQueue_destroy(slave->asduQueue);
                slave->asduQueue = MessageQueue_create(z);          /* the event ring, z entries */
                con->lowPrioQueue = slave->asduQueue;
                con->state = M_CON_STATE_STARTED; asdu_id = 0;
            }
            else if (!strcmp(sub, "ev")) { sCS101_StaticASDU st; MessageQueue_enqueueASDU(con->lowPrioQueue, mk_asdu(&st, x, asdu_id++)); }
            else if (!strcmp(sub, "rearm")) {
                /* the connection ends: what was sent and not confirmed waits again; the next connection starts with an empty k-buffer */
                MessageQueue_setWaitingForTransmissionWhenNotConfirmed(con->lowPrioQueue);
                con->oldestSentASDU = -1; con->newestSentASDU = -1;
            }
            else if (!strcmp(sub, "resp")) { sCS101_StaticASDU st; bool r = sendASDUInternal(con, mk_asdu(&st, x, asdu_id++)); printf("schresp %d\n", r); }
            else if (!strcmp(sub, "drain")) { sendWaitingASDUs(con); printf("schdrain\n"); }
            else if (!strcmp(sub, "ack")) {
                /* the peer acknowledges the x oldest sent ASDUs */
                int kk = con->maxSentASDUs, occ = con->oldestSentASDU == -1 ? 0 : ((con->newestSentASDU - con->oldestSentASDU + kk) % kk) + 1;
                if (x > occ) x = occ;
                if (x > 0) { int nr = con->sentASDUs[(con->oldestSentASDU + x - 1) % kk].seqNo; checkSequenceNumber(con, nr); }   /* seqNo = the N(R) that acknowledges the entry */
            }
            else if (!strcmp(sub, "wmode")) sock->writeMode = x;
            else if (!strcmp(sub, "stop")) con->state = M_CON_STATE_STOPPED;
            {
                static uint8_t tx[70000]; int n = Sim_takeTx(sock, tx, sizeof tx), i = 0;
                int kk = con->maxSentASDUs, occ = con->oldestSentASDU == -1 ? 0 : ((con->newestSentASDU - con->oldestSentASDU + kk) % kk) + 1;
                printf("sch tx=");
                while (i + 1 < n && tx[i] == 0x68) { int l = tx[i + 1]; if (l >= 12) printf("%d,", tx[i + 12] | tx[i + 13] << 8); else printf("u,"); i += 2 + l; }
                HighPriorityASDUQueue q = con->highPrioQueue;
                printf(" k=%d run=%d hp n=%d first=%ld last=%ld lib=%ld\n", occ, (int) con->isRunning, q->entryCounter, q->firstEntry ? (long) (q->firstEntry - q->buffer) : -1,
                       q->lastEntry ? (long) (q->lastEntry - q->buffer) : -1, q->lastInBufferEntry ? (long) (q->lastInBufferEntry - q->buffer) : -1);
                MessageQueue saved = mq; mq = con->lowPrioQueue; mq_dump(); mq = saved;
            }
        }
        else if (!strcmp(cmd, "hp")) {
            char sub[32]; sscanf(line, "%*s %31s %d", sub, &x);
            if (!strcmp(sub, "new")) { if (hq) HighPriorityASDUQueue_destroy(hq); hq = HighPriorityASDUQueue_create(x); asdu_id = 0; }
            else if (!strcmp(sub, "enq")) { sCS101_StaticASDU st; bool r = HighPriorityASDUQueue_enqueue(hq, mk_asdu(&st, x, asdu_id++)); printf("hpenq %d\n", r); }
            else if (!strcmp(sub, "next")) {
                int sz = 0; HighPriorityASDUQueue_lock(hq); uint8_t* p = HighPriorityASDUQueue_getNextASDU(hq, &sz); HighPriorityASDUQueue_unlock(hq);
                if (p) printf("hpnext size=%d pid=%d\n", sz, p[6] | p[7] << 8); else printf("hpnext none\n");
            }
            else if (!strcmp(sub, "full")) printf("hpfull %d\n", HighPriorityASDUQueue_isFull(hq));
            else if (!strcmp(sub, "reset")) HighPriorityASDUQueue_resetConnectionQueue(hq);
            hq_dump();
        }
#endif
        else printf("? %s", line);
        fflush(stdout);
    }
    return 0;
}
