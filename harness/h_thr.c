/* h_thr: C17 dynamic search.  Runs the REAL threaded CS104 server (CS104_Slave_start: listener thread + one thread per
 * connection) and the REAL threaded client (CS104_Connection: connection thread) on the simulated HAL, with 1..4
 * application threads calling the public API concurrently while scripted peers feed STARTDT / I-frames / S-frames /
 * TESTFR / STOPDT / disconnects.  The simulated HAL's semaphores report a value outside {0,1}, a post by a thread that is
 * not the holder and a wait by the holder; the same program is also built with -fsanitize=thread.
 *
 * script (one scenario per line; `--- <id>` separates and is echoed):
 *   srv seed=<n> mode=<0|1|2> conns=<1..4> apps=<1..4> rounds=<n> reent=<0|1> raw=<0|1> stop=<0|1|2> big=<0|1> (big: now and then an ASDU too large for an APDU)
 *       (stop: 0 = stop after the peers are done, 1 = stop while everything is busy, 2 = destroy while the peers are still talking)
 *   cli seed=<n> apps=<1..4> rounds=<n> reent=<0|1> raw=<0|1> close=<0|1>
 * trace:
 *   sem <count> <first instrumentation message> [cb=<event> api=<function>]
 *   done <kind> ... counters
 *   hang <kind>       (watchdog: the scenario did not finish -- deadlock)               */
#include <stdio.h>
#include <stdlib.h>
#include <string.h>
#include <pthread.h>
#include <unistd.h>
#include <signal.h>
#include "simhal.h"
#include "cs104_slave.h"
#include "cs104_connection.h"
#include "hal_thread.h"
#include "hal_time.h"

/* The library destroys its listening socket with Socket_destroy((Socket) serverSocket) (serverThread); the shared simhal's
 * server-socket struct is smaller than its socket struct, so this harness supplies the allocation (simhal's own
 * TcpServerSocket_create is renamed away by the build, see pylib/props/c17.py). */
ServerSocket TcpServerSocket_create(const char* address, int port) { (void) address; (void) port; return calloc(1, sizeof(struct sSocket) + 64); }

/* ------------------------------------------------------------------ small PRNG per thread (splitmix64) */
typedef struct { uint64_t s; } Rng;
static uint64_t rnd(Rng* r)
{
    r->s += 0x9E3779B97F4A7C15ULL; uint64_t z = r->s;
    z = (z ^ (z >> 30)) * 0xBF58476D1CE4E5B9ULL; z = (z ^ (z >> 27)) * 0x94D049BB133111EBULL; return z ^ (z >> 31);
}
static int below(Rng* r, int n) { return n > 0 ? (int) (rnd(r) % (uint64_t) n) : 0; }
static void jitter(Rng* r) { int j = below(r, 8); if (j == 0) sched_yield(); else if (j == 1) usleep(50 + below(r, 300)); }

static struct { int seed, mode, conns, apps, rounds, reent, raw, stop, close, big, win; } P;
static volatile int finished_flag = 0;
static const char* current_kind = "?";
static char cb_note[128];
static long n_enq, n_query, n_events, n_asdus, n_rawcb, n_sent, n_recv;
static int stop_apps = 0;
#define FLAG_GET(x) __atomic_load_n(&(x), __ATOMIC_ACQUIRE)
#define FLAG_SET(x, v) __atomic_store_n(&(x), (v), __ATOMIC_RELEASE)

static void on_alarm(int sig)
{
    (void) sig;
    char buf[200]; int n = snprintf(buf, sizeof buf, "hang %s\n", current_kind);
    if (write(1, buf, n) < 0) {}
    if (sim_sem_errors) { n = snprintf(buf, sizeof buf, "sem %d %s%s\n", sim_sem_errors, sim_sem_error_text, cb_note); if (write(1, buf, n) < 0) {} }
    _exit(3);
}

/* the peer threads are "the network": they only touch the simulated HAL's sockets, which are not part of what is searched */
#define NOTSAN __attribute__((no_sanitize_thread, noinline))

/* ------------------------------------------------------------------ frame helpers (peer side) */
typedef struct { Socket s; uint8_t buf[65536]; int len; int vs, vr; Rng rng; int id; int gotStartCon, gotStopCon; long iframes; int acked, maxwin; } Peer;

NOTSAN static void peer_send_u(Peer* p, uint8_t c) { uint8_t m[6] = {0x68, 4, c, 0, 0, 0}; Sim_feed(p->s, m, 6); }
NOTSAN static void peer_send_s(Peer* p) { p->acked = p->vr; uint8_t m[6] = {0x68, 4, 1, 0, (uint8_t) ((p->vr % 128) * 2), (uint8_t) (p->vr / 128)}; Sim_feed(p->s, m, 6); }
NOTSAN static void peer_send_i(Peer* p, const uint8_t* asdu, int n, Rng* r)
{
    uint8_t m[260]; m[0] = 0x68; m[1] = (uint8_t) (4 + n);
    m[2] = (uint8_t) ((p->vs % 128) * 2); m[3] = (uint8_t) (p->vs / 128);
    m[4] = (uint8_t) ((p->vr % 128) * 2); m[5] = (uint8_t) (p->vr / 128); p->acked = p->vr;
    memcpy(m + 6, asdu, n); p->vs = (p->vs + 1) % 32768;
    if (r && below(r, 3) == 0) { int cut = 1 + below(r, 5 + n); Sim_feed(p->s, m, cut); usleep(100); Sim_feed(p->s, m + cut, 6 + n - cut); }
    else Sim_feed(p->s, m, 6 + n);
}
/* consume what the library wrote; returns number of complete frames seen */
NOTSAN static int peer_drain(Peer* p)
{
    int frames = 0;
    int n = Sim_takeTx(p->s, p->buf + p->len, (int) sizeof p->buf - p->len);
    p->len += n;
    int pos = 0;
    while (p->len - pos >= 2) {
        if (p->buf[pos] != 0x68) { pos++; continue; }
        int l = p->buf[pos + 1] + 2;
        if (p->len - pos < l) break;
        uint8_t c = p->buf[pos + 2];
        if ((c & 1) == 0) { int ns = (p->buf[pos + 2] + p->buf[pos + 3] * 256) / 2; p->vr = (ns + 1) % 32768; p->iframes++; }
        else if (c == 0x0b) p->gotStartCon = 1;
        else if (c == 0x23) p->gotStopCon = 1;
        else if (c == 0x43) peer_send_u(p, 0x83);          /* TESTFR act -> con */
        pos += l; frames++;
    }
    memmove(p->buf, p->buf + pos, p->len - pos); p->len -= pos;
    return frames;
}

/* ================================================================== server scenario */
static CS104_Slave slave;
static volatile int clock_torn = 0;

static void make_measurement(CS101_AppLayerParameters alp, int v, CS101_ASDU* out)
{
    CS101_ASDU a = CS101_ASDU_create(alp, false, CS101_COT_SPONTANEOUS, 0, 1, false, false);
    InformationObject io = (InformationObject) MeasuredValueScaled_create(NULL, 100 + (v % 50), (int16_t) v, IEC60870_QUALITY_GOOD);
    CS101_ASDU_addInformationObject(a, io); InformationObject_destroy(io);
    *out = a;
}

static void reenter_server(IMasterConnection con, const char* ev)
{
    /* an application handler that uses the API, as applications do */
    int before = sim_sem_errors;
    const char* api = "CS104_Slave_getOpenConnections";
    (void) CS104_Slave_getOpenConnections(slave);
    if (sim_sem_errors == before) { api = "IMasterConnection_isReady"; (void) IMasterConnection_isReady(con); }
    if (sim_sem_errors == before) { api = "CS104_Slave_getNumberOfQueueEntries"; (void) CS104_Slave_getNumberOfQueueEntries(slave, NULL); }
    if (sim_sem_errors == before) { api = "CS104_Slave_isRunning"; (void) CS104_Slave_isRunning(slave); }
    if (sim_sem_errors != before && cb_note[0] == 0) snprintf(cb_note, sizeof cb_note, " cb=%s api=%s", ev, api);
}

static void s_event(void* p, IMasterConnection con, CS104_PeerConnectionEvent ev)
{
    static const char* n[] = {"OPENED", "CLOSED", "ACTIVATED", "DEACTIVATED"};
    (void) p; __sync_fetch_and_add(&n_events, 1);
    if (P.reent) reenter_server(con, n[ev]);
}
static bool s_request(void* p, const char* ip) { (void) p; (void) ip; return true; }
static bool s_interrogation(void* p, IMasterConnection con, CS101_ASDU asdu, uint8_t qoi)
{
    (void) p; (void) qoi; __sync_fetch_and_add(&n_asdus, 1);
    CS101_AppLayerParameters alp = IMasterConnection_getApplicationLayerParameters(con);
    IMasterConnection_sendACT_CON(con, asdu, false);
    for (int i = 0; i < 3; i++) {
        CS101_ASDU a = CS101_ASDU_create(alp, false, CS101_COT_INTERROGATED_BY_STATION, 0, 1, false, false);
        InformationObject io = (InformationObject) SinglePointInformation_create(NULL, 10 + i, i & 1, IEC60870_QUALITY_GOOD);
        CS101_ASDU_addInformationObject(a, io); InformationObject_destroy(io);
        IMasterConnection_sendASDU(con, a); CS101_ASDU_destroy(a);
    }
    IMasterConnection_sendACT_TERM(con, asdu);
    if (P.reent) reenter_server(con, "interrogationHandler");
    return true;
}
/* the other system commands: every connection thread decodes into its own objects; the time handed to the clock handler must be the
   one of ITS command also when another connection is served at the same moment (read it a few times while other threads run) */
static bool s_clock(void* p, IMasterConnection con, CS101_ASDU asdu, CP56Time2a t)
{
    (void) p; (void) con; (void) asdu; __sync_fetch_and_add(&n_asdus, 1);
    int m0 = CP56Time2a_getMinute(t), h0 = CP56Time2a_getHour(t);
    for (int i = 0; i < 20; i++) { usleep(20); if (CP56Time2a_getMinute(t) != m0 || CP56Time2a_getHour(t) != h0) { if (!clock_torn) clock_torn = 1; } }
    return true;
}
static bool s_counter(void* p, IMasterConnection con, CS101_ASDU asdu, QualifierOfCIC q) { (void) p; (void) q; __sync_fetch_and_add(&n_asdus, 1); IMasterConnection_sendACT_CON(con, asdu, false); return true; }
static bool s_read(void* p, IMasterConnection con, CS101_ASDU asdu, int ioa) { (void) p; (void) con; (void) asdu; (void) ioa; __sync_fetch_and_add(&n_asdus, 1); return true; }

static bool s_asdu(void* p, IMasterConnection con, CS101_ASDU asdu)
{
    (void) p; (void) asdu; __sync_fetch_and_add(&n_asdus, 1);
    if (P.reent) reenter_server(con, "asduHandler");
    return false;
}
static void s_raw(void* p, IMasterConnection con, uint8_t* msg, int n, bool sent) { (void) p; (void) con; (void) msg; (void) n; (void) sent; __sync_fetch_and_add(&n_rawcb, 1); }

static void* srv_app(void* arg)
{
    Rng r = { (uint64_t) P.seed * 7919u + (uint64_t) (intptr_t) arg * 104729u };
    CS101_AppLayerParameters alp = CS104_Slave_getAppLayerParameters(slave);
    for (int i = 0; i < P.rounds * 4 && !FLAG_GET(stop_apps); i++) {
        int op = below(&r, 10);
        if (op < 5 && P.big && below(&r, 8) == 0) {
            /* an ASDU built with application layer parameters that allow 254 octets: too large for an APDU, refused by the queue */
            struct sCS101_AppLayerParameters big = *alp; big.maxSizeOfASDU = 254;
            static const uint8_t fill[248] = {1, 0, 0, 7};
            CS101_ASDU a = CS101_ASDU_create(&big, false, CS101_COT_SPONTANEOUS, 0, 1, false, false);
            CS101_ASDU_setTypeID(a, M_ME_NB_1); CS101_ASDU_addPayload(a, (uint8_t*) fill, 243 + below(&r, 6));
            CS104_Slave_enqueueASDU(slave, a); CS101_ASDU_destroy(a); __sync_fetch_and_add(&n_enq, 1);
        }
        else if (op < 5) { CS101_ASDU a; make_measurement(alp, i + (int) (intptr_t) arg * 1000, &a); CS104_Slave_enqueueASDU(slave, a); CS101_ASDU_destroy(a); __sync_fetch_and_add(&n_enq, 1); }
        else if (op < 7) { (void) CS104_Slave_getOpenConnections(slave); __sync_fetch_and_add(&n_query, 1); }
        else if (op < 8) { (void) CS104_Slave_isRunning(slave); __sync_fetch_and_add(&n_query, 1); }
        else if (op < 9) { (void) CS104_Slave_getNumberOfQueueEntries(slave, NULL); __sync_fetch_and_add(&n_query, 1); }
        else Sim_advance(1 + below(&r, 300));
        jitter(&r);
    }
    return NULL;
}

NOTSAN static void* srv_peer(void* arg)
{
    Peer* p = arg; Rng* r = &p->rng;
    static const uint8_t gi[10] = {0x64, 0x01, 0x06, 0x00, 0x01, 0x00, 0x00, 0x00, 0x00, 0x14};
    static const uint8_t cmd[10] = {0x2d, 0x01, 0x06, 0x00, 0x01, 0x00, 0x10, 0x00, 0x00, 0x01};     /* C_SC_NA_1 -> asduHandler */
    char addr[32]; snprintf(addr, sizeof addr, "10.0.0.%d:%d", 1 + p->id, 30000 + p->id);
    p->s = Sim_newPeer(addr);
    usleep(500 + below(r, 1500));
    peer_send_u(p, 0x07);                                   /* STARTDT act */
    for (int w = 0; w < 400 && !p->gotStartCon; w++) { peer_drain(p); usleep(200); }
    for (int i = 0; i < P.rounds; i++) {
        int op = below(r, 12);
        if (op < 3) peer_send_i(p, gi, 10, r);
        else if (op < 4) {      /* another system command: clock synchronisation (time differs per peer), counter interrogation, read, test */
            uint8_t cs[16] = {0x67, 0x01, 0x06, 0x00, 0x01, 0x00, 0x00, 0x00, 0x00, 0x10, 0x27, (uint8_t) (p->id * 7 + 1), (uint8_t) (p->id + 1), 0x01, 0x01, 0x18};
            static const uint8_t ci[10] = {0x65, 0x01, 0x06, 0x00, 0x01, 0x00, 0x00, 0x00, 0x00, 0x05};
            static const uint8_t rd[9] = {0x66, 0x01, 0x05, 0x00, 0x01, 0x00, 0x10, 0x00, 0x00};
            static const uint8_t ts[11] = {0x68, 0x01, 0x06, 0x00, 0x01, 0x00, 0x00, 0x00, 0x00, 0xaa, 0x55};
            int w_ = below(r, 6);
            if (w_ < 3) peer_send_i(p, cs, 16, r); else if (w_ < 4) peer_send_i(p, ci, 10, r); else if (w_ < 5) peer_send_i(p, rd, 9, r); else peer_send_i(p, ts, 11, r);
        }
        else if (op < 6) peer_send_i(p, cmd, 10, r);
        else if (op < 8) peer_send_s(p);
        else if (op < 9) peer_send_u(p, 0x43);              /* TESTFR act */
        else if (op < 10 && !P.reent) { peer_send_u(p, 0x13); for (int w = 0; w < 50; w++) { peer_drain(p); if (p->gotStopCon) break; peer_send_s(p); usleep(200); }
                            p->gotStopCon = 0; p->gotStartCon = 0; peer_send_u(p, 0x07); }   /* STOPDT act ... STARTDT act */
        else if (op < 11) Sim_advance(200 + below(r, 3000));
        else usleep(100 + below(r, 400));
        peer_drain(p);
        if (below(r, 3) == 0) peer_send_s(p);
        jitter(r);
        if (p->s->destroyed) break;
    }
    if (below(r, 2) && !P.reent) { peer_send_u(p, 0x13); usleep(300); peer_drain(p); }
    peer_drain(p);
    Sim_peerClose(p->s);
    return NULL;
}

static void run_srv(void)
{
    current_kind = "srv";
    slave = CS104_Slave_create(20, 20);
    CS104_Slave_setServerMode(slave, (CS104_ServerMode) P.mode);
    CS104_APCIParameters ap = CS104_Slave_getConnectionParameters(slave);
    ap->k = 12; ap->w = 8; ap->t1 = 15; ap->t2 = 10; ap->t3 = 20;
    CS104_RedundancyGroup grp = NULL;
    if (P.mode == CS104_MODE_MULTIPLE_REDUNDANCY_GROUPS) { grp = CS104_RedundancyGroup_create("all"); CS104_Slave_addRedundancyGroup(slave, grp); }
    CS104_Slave_setConnectionRequestHandler(slave, s_request, NULL);
    CS104_Slave_setConnectionEventHandler(slave, s_event, NULL);
    CS104_Slave_setInterrogationHandler(slave, s_interrogation, NULL);
    CS104_Slave_setASDUHandler(slave, s_asdu, NULL);
    CS104_Slave_setClockSyncHandler(slave, s_clock, NULL);
    CS104_Slave_setCounterInterrogationHandler(slave, s_counter, NULL);
    CS104_Slave_setReadHandler(slave, s_read, NULL);
    if (P.raw) CS104_Slave_setRawMessageHandler(slave, s_raw, NULL);
    CS104_Slave_start(slave);
    for (int w = 0; w < 2000 && !CS104_Slave_isRunning(slave); w++) usleep(100);

    static Peer peers[4]; pthread_t pt[4], at[4];
    memset(peers, 0, sizeof peers);
    FLAG_SET(stop_apps, 0);
    for (int i = 0; i < P.conns; i++) { peers[i].id = i; peers[i].rng.s = (uint64_t) P.seed * 31337u + (uint64_t) i * 977u; pthread_create(&pt[i], NULL, srv_peer, &peers[i]); }
    for (int i = 0; i < P.apps; i++) pthread_create(&at[i], NULL, srv_app, (void*) (intptr_t) (i + 1));
    Rng r = { (uint64_t) P.seed * 1299709u };
    if (P.stop == 1) {                 /* stop while peers and application threads are still busy */
        usleep(2000 + below(&r, 20000));
        CS104_Slave_stop(slave);
    }
    int open = 0;
    if (P.stop == 2) {                 /* destroy (which stops) while the peers are still talking; application threads are done first */
        usleep(2000 + below(&r, 15000));
        FLAG_SET(stop_apps, 1);
        for (int i = 0; i < P.apps; i++) pthread_join(at[i], NULL);
        CS104_Slave_destroy(slave);
        for (int i = 0; i < P.conns; i++) pthread_join(pt[i], NULL);
        slave = NULL;
    }
    else {
        for (int i = 0; i < P.conns; i++) pthread_join(pt[i], NULL);
        if (!P.stop) { usleep(2000); }
        FLAG_SET(stop_apps, 1);
        for (int i = 0; i < P.apps; i++) pthread_join(at[i], NULL);
        if (!P.stop) CS104_Slave_stop(slave);
        open = CS104_Slave_getOpenConnections(slave);
        CS104_Slave_destroy(slave); slave = NULL;
    }
    long ifr = 0; for (int i = 0; i < P.conns; i++) { ifr += peers[i].iframes; Sim_freeSocket(peers[i].s); }
    if (sim_sem_errors) printf("sem %d %s%s\n", sim_sem_errors, sim_sem_error_text, cb_note);
    if (clock_torn) printf("shared the time handed to the clock synchronisation handler of one connection changed while the handler ran (another connection's command was decoded into the same object)\n");
    printf("done srv open=%d enq=%ld query=%ld events=%ld asdus=%ld raw=%ld iframes=%ld\n", open, n_enq, n_query, n_events, n_asdus, n_rawcb, ifr);
}

/* ================================================================== client scenario */
static CS104_Connection con;
static int cli_stop = 0;

static void reenter_client(const char* ev)
{
    int before = sim_sem_errors;
    const char* api = "CS104_Connection_sendTestCommand";
    (void) CS104_Connection_sendTestCommand(con, 1);
    if (sim_sem_errors == before) { api = "CS104_Connection_isTransmitBufferFull"; (void) CS104_Connection_isTransmitBufferFull(con); }
    if (sim_sem_errors != before && cb_note[0] == 0) snprintf(cb_note, sizeof cb_note, " cb=%s api=%s", ev, api);
}
static bool c_received(void* p, int addr, CS101_ASDU asdu) { (void) p; (void) addr; (void) asdu; __sync_fetch_and_add(&n_recv, 1); if (P.reent) reenter_client("asduReceivedHandler"); return true; }
static void c_event(void* p, CS104_Connection c, CS104_ConnectionEvent ev)
{
    static const char* n[] = {"OPENED", "CLOSED", "STARTDT_CON", "STOPDT_CON", "FAILED"};
    (void) p; (void) c; __sync_fetch_and_add(&n_events, 1);
    if (P.reent && ev != CS104_CONNECTION_CLOSED && ev != CS104_CONNECTION_FAILED) reenter_client(n[ev]);
}
static void c_raw(void* p, uint8_t* msg, int n, bool sent) { (void) p; (void) msg; (void) n; (void) sent; __sync_fetch_and_add(&n_rawcb, 1); }

static void* cli_app(void* arg)
{
    Rng r = { (uint64_t) P.seed * 6151u + (uint64_t) (intptr_t) arg * 12289u };
    for (int i = 0; i < P.rounds * (P.win > 0 ? 40 : 3) && !FLAG_GET(cli_stop); i++) {
        int op = P.win > 0 ? 3 : below(&r, 10);      /* window watch: every application thread sends as fast as it can */
        if (op < 3) { if (CS104_Connection_sendInterrogationCommand(con, CS101_COT_ACTIVATION, 1, IEC60870_QOI_STATION)) __sync_fetch_and_add(&n_sent, 1); }
        else if (op < 5) { if (CS104_Connection_sendTestCommand(con, 1)) __sync_fetch_and_add(&n_sent, 1); }
        else if (op < 6) { InformationObject sc = (InformationObject) SingleCommand_create(NULL, 5000, i & 1, false, 0);
                           if (CS104_Connection_sendProcessCommandEx(con, CS101_COT_ACTIVATION, 1, sc)) __sync_fetch_and_add(&n_sent, 1); InformationObject_destroy(sc); }
        else if (op < 8) { (void) CS104_Connection_isTransmitBufferFull(con); __sync_fetch_and_add(&n_query, 1); }
        else if (op < 9) CS104_Connection_sendStartDT(con);
        else Sim_advance(1 + below(&r, 300));
        jitter(&r);
    }
    return NULL;
}

NOTSAN static void* cli_peer(void* arg)
{
    Peer* p = arg; Rng* r = &p->rng;
    static const uint8_t sp[10] = {0x01, 0x01, 0x03, 0x00, 0x01, 0x00, 0x01, 0x00, 0x00, 0x01};
    for (int w = 0; w < 5000 && sim_last_client_socket == NULL; w++) usleep(100);
    p->s = sim_last_client_socket;
    if (!p->s) return NULL;
    int started = 0;
    for (int i = 0; i < P.rounds * (P.win > 0 ? 400 : 2) && !p->s->destroyed; i++) {
        /* act as the server end: answer U frames, acknowledge, send monitoring data */
        int n = Sim_takeTx(p->s, p->buf + p->len, (int) sizeof p->buf - p->len); p->len += n;
        int pos = 0;
        while (p->len - pos >= 2) {
            if (p->buf[pos] != 0x68) { pos++; continue; }
            int l = p->buf[pos + 1] + 2; if (p->len - pos < l) break;
            uint8_t c = p->buf[pos + 2];
            if ((c & 1) == 0) { int ns = (p->buf[pos + 2] + p->buf[pos + 3] * 256) / 2; p->vr = (ns + 1) % 32768; p->iframes++;
                                /* I-frames received beyond the last N(R) this peer SENT: a lower bound of what the client has in flight */
                                int w_ = (p->vr - p->acked + 32768) % 32768; if (w_ > p->maxwin) p->maxwin = w_; }
            else if (c == 0x07) { peer_send_u(p, 0x0b); started = 1; }
            else if (c == 0x13) { peer_send_u(p, 0x23); started = 0; }
            else if (c == 0x43) peer_send_u(p, 0x83);
            pos += l;
        }
        memmove(p->buf, p->buf + pos, p->len - pos); p->len -= pos;
        int op = below(r, 8);
        if (P.win > 0) { if (p->vr != p->acked) peer_send_s(p); usleep(30); continue; }     /* window watch: acknowledge at once, nothing else */
        if (P.close == 2) { if (below(r, 4) == 0) peer_send_u(p, 0x43); usleep(100 + below(r, 300)); continue; }   /* never acknowledges: frames stay unconfirmed until destroy */
        if (started && op < 4) peer_send_i(p, sp, 10, r);
        else if (op < 6) peer_send_s(p);
        else if (op < 7) peer_send_u(p, 0x43);
        else Sim_advance(100 + below(r, 2000));
        usleep(100 + below(r, 300));
    }
    return NULL;
}

static void run_cli(void)
{
    current_kind = "cli";
    sim_last_client_socket = NULL;
    con = CS104_Connection_create("server", 2404);
    CS104_Connection_setASDUReceivedHandler(con, c_received, NULL);
    CS104_Connection_setConnectionHandler(con, c_event, NULL);
    if (P.raw) CS104_Connection_setRawMessageHandler(con, c_raw, NULL);
    if (P.win > 0) { CS104_APCIParameters ap = CS104_Connection_getAPCIParameters(con); ap->k = P.win; }
    static Peer peer; memset(&peer, 0, sizeof peer); peer.rng.s = (uint64_t) P.seed * 40503u;
    pthread_t pt, at[4];
    FLAG_SET(cli_stop, 0);
    pthread_create(&pt, NULL, cli_peer, &peer);
    CS104_Connection_connectAsync(con);
    for (int w = 0; w < 5000 && sim_last_client_socket == NULL; w++) usleep(100);
    usleep(500);
    CS104_Connection_sendStartDT(con);
    for (int i = 0; i < P.apps; i++) pthread_create(&at[i], NULL, cli_app, (void*) (intptr_t) (i + 1));
    Rng r = { (uint64_t) P.seed * 2750159u };
    if (P.close == 1) { usleep(1000 + below(&r, 15000)); CS104_Connection_close(con); }       /* close while senders are busy */
    for (int i = 0; i < P.apps; i++) pthread_join(at[i], NULL);
    if (!P.close) { CS104_Connection_sendStopDT(con); usleep(1500); CS104_Connection_close(con); }
    /* close=2: the connection is destroyed while it is open, with sent I-frames unconfirmed and the peer still talking:
       destroy has to stop the connection thread before it releases what that thread uses */
    FLAG_SET(cli_stop, 1);
    pthread_join(pt, NULL);
    CS104_Connection_destroy(con); con = NULL;
    long ifr = peer.iframes;
    if (peer.s) Sim_freeSocket(peer.s);
    if (sim_sem_errors) printf("sem %d %s%s\n", sim_sem_errors, sim_sem_error_text, cb_note);
    if (P.win > 0 && peer.maxwin > P.win)
        printf("window %d the peer held %d I-frames it had not acknowledged yet, k=%d: several application threads passed the window test together\n", peer.maxwin, peer.maxwin, P.win);
    printf("done cli sent=%ld recv=%ld query=%ld events=%ld raw=%ld iframes=%ld\n", n_sent, n_recv, n_query, n_events, n_rawcb, ifr);
}

int main(void)
{
    static char line[4096];
    setvbuf(stdout, NULL, _IOLBF, 0);
    signal(SIGALRM, on_alarm);
    while (fgets(line, sizeof line, stdin)) {
        char cmd[32];
        if (sscanf(line, "%31s", cmd) != 1) continue;
        if (!strcmp(cmd, "---")) { fputs(line, stdout); fflush(stdout); continue; }
        memset(&P, 0, sizeof P); P.conns = 1; P.apps = 1; P.rounds = 20;
        char* tok = strtok(line, " \n");
        while ((tok = strtok(NULL, " \n"))) {
            char key[32]; int val;
            if (sscanf(tok, "%31[^=]=%d", key, &val) != 2) continue;
#define K(n) if (!strcmp(key, #n)) P.n = val;
            K(seed) K(mode) K(conns) K(apps) K(rounds) K(reent) K(raw) K(stop) K(close) K(big) K(win)
        }
        if (P.conns < 1) P.conns = 1; if (P.conns > 4) P.conns = 4;
        if (P.apps < 1) P.apps = 1; if (P.apps > 4) P.apps = 4;
        Sim_reset(); Sim_setTime(1000000); sim_sem_errors = 0; sim_sem_error_text[0] = 0; cb_note[0] = 0;
        n_enq = n_query = n_events = n_asdus = n_rawcb = n_sent = n_recv = 0;
        alarm(8);
        if (!strcmp(cmd, "srv")) run_srv();
        else if (!strcmp(cmd, "cli")) run_cli();
        else printf("? %s\n", cmd);
        alarm(0);
        fflush(stdout);
    }
    return 0;
}
