#include <stdio.h>
#include <stdlib.h>
#include <string.h>
#include <pthread.h>
#include <semaphore.h>
#include <unistd.h>
#include "simhal.h"

/* ------------------------------------------------------------------ time */
static volatile uint64_t sim_now = 1000000;
void Sim_setTime(uint64_t ms) { sim_now = ms; }
uint64_t Sim_time(void) { return sim_now; }
void Sim_advance(uint64_t ms) { sim_now += ms; }
msSinceEpoch Hal_getTimeInMs(void) { return sim_now; }
nsSinceEpoch Hal_getTimeInNs(void) { return sim_now * 1000000ULL; }
bool Hal_setTimeInNs(nsSinceEpoch t) { (void) t; return false; }
msSinceEpoch Hal_getMonotonicTimeInMs(void) { return sim_now; }
nsSinceEpoch Hal_getMonotonicTimeInNs(void) { return sim_now * 1000000ULL; }

/* ------------------------------------------------------------------ sockets */
struct sServerSocket { int listening; };
struct sHandleSet { Socket socks[128]; int n; };

static pthread_mutex_t sim_mx = PTHREAD_MUTEX_INITIALIZER;
static Socket pending[128]; static int npending = 0;
static int next_id = 1;
int sim_connect_result = 1;
Socket sim_last_client_socket = NULL;
int (*sim_wait_hook)(HandleSet hs, unsigned int timeoutMs, int ready) = NULL;
void (*sim_sleep_hook)(int ms) = NULL;

static Socket sock_new(const char* peer)
{
    Socket s = calloc(1, sizeof(struct sSocket));
    s->id = next_id++;
    s->rxCap = 4096; s->rx = malloc(s->rxCap);
    s->txCap = 4096; s->tx = malloc(s->txCap);
    snprintf(s->peer, sizeof s->peer, "%s", peer ? peer : "127.0.0.1:1000");
    return s;
}
void Sim_reset(void) { npending = 0; sim_connect_result = 1; sim_last_client_socket = NULL; }
Socket Sim_newPeer(const char* peerAddr)
{
    Socket s = sock_new(peerAddr);
    pthread_mutex_lock(&sim_mx);
    if (npending < 128) pending[npending++] = s;
    pthread_mutex_unlock(&sim_mx);
    return s;
}
void Sim_feed(Socket s, const uint8_t* d, int n)
{
    pthread_mutex_lock(&sim_mx);
    if (s->rxHead > 0 && s->rxLen > 0) memmove(s->rx, s->rx + s->rxHead, s->rxLen);
    s->rxHead = 0;
    if (s->rxLen + n > s->rxCap) { s->rxCap = (s->rxLen + n) * 2; s->rx = realloc(s->rx, s->rxCap); }
    memcpy(s->rx + s->rxLen, d, n); s->rxLen += n;
    pthread_mutex_unlock(&sim_mx);
}
int Sim_takeTx(Socket s, uint8_t* out, int max)
{
    pthread_mutex_lock(&sim_mx);
    int n = s->txLen < max ? s->txLen : max;
    memcpy(out, s->tx, n);
    memmove(s->tx, s->tx + n, s->txLen - n); s->txLen -= n;
    pthread_mutex_unlock(&sim_mx);
    return n;
}
void Sim_peerClose(Socket s) { s->peerClosed = 1; }
void Sim_freeSocket(Socket s) { if (s) { free(s->rx); free(s->tx); free(s); } }

HandleSet Handleset_new(void) { return calloc(1, sizeof(struct sHandleSet)); }
void Handleset_reset(HandleSet self) { if (self) self->n = 0; }
void Handleset_addSocket(HandleSet self, const Socket sock) { if (self && sock && self->n < 128) self->socks[self->n++] = sock; }
void Handleset_removeSocket(HandleSet self, const Socket sock)
{
    if (!self) return;
    for (int i = 0; i < self->n; i++) if (self->socks[i] == sock) { self->socks[i] = self->socks[--self->n]; break; }
}
static int hs_ready(HandleSet self)
{
    int r = 0;
    pthread_mutex_lock(&sim_mx);
    for (int i = 0; i < self->n; i++) { Socket s = self->socks[i]; if (s && (s->rxLen > 0 || s->peerClosed)) r = 1; }
    pthread_mutex_unlock(&sim_mx);
    return r;
}
int Handleset_waitReady(HandleSet self, unsigned int timeoutMs)
{
    if (!self || self->n == 0) return 0;
    int r = hs_ready(self);
    if (sim_wait_hook) return sim_wait_hook(self, timeoutMs, r);
    if (!r && timeoutMs > 0) usleep(200);
    return r;
}
void Handleset_destroy(HandleSet self) { free(self); }

ServerSocket TcpServerSocket_create(const char* address, int port) { (void) address; (void) port; return calloc(1, sizeof(struct sSocket)); }  /* the library ends its listener with Socket_destroy((Socket) serverSocket) */
void ServerSocket_listen(ServerSocket self) { if (self) self->listening = 1; }
void ServerSocket_setBacklog(ServerSocket self, int backlog) { (void) self; (void) backlog; }
Socket ServerSocket_accept(ServerSocket self)
{
    Socket s = NULL;
    if (!self) return NULL;
    pthread_mutex_lock(&sim_mx);
    if (npending > 0) { s = pending[0]; memmove(pending, pending + 1, (--npending) * sizeof(Socket)); }
    pthread_mutex_unlock(&sim_mx);
    return s;
}
void ServerSocket_destroy(ServerSocket self) { free(self); }
void Socket_activateTcpKeepAlive(Socket self, int a, int b, int c) { (void) self; (void) a; (void) b; (void) c; }

Socket TcpSocket_create(void) { Socket s = sock_new("server:2404"); s->connectResult = sim_connect_result; sim_last_client_socket = s; return s; }
void Socket_setConnectTimeout(Socket self, uint32_t t) { (void) self; (void) t; }
bool Socket_bind(Socket self, const char* a, int p) { (void) self; (void) a; (void) p; return true; }
bool Socket_connect(Socket self, const char* a, int p) { (void) a; (void) p; return self->connectResult == 1; }
bool Socket_connectAsync(Socket self, const char* a, int p) { (void) a; (void) p; return self->connectResult != -1; }
SocketState Socket_checkAsyncConnectState(Socket self)
{
    if (self->connectResult == 1) return SOCKET_STATE_CONNECTED;
    if (self->connectResult == 2) return SOCKET_STATE_CONNECTING;
    return SOCKET_STATE_FAILED;
}
int Socket_read(Socket self, uint8_t* buf, int size)
{
    if (!self || self->destroyed) return -1;
    int r;
    pthread_mutex_lock(&sim_mx);
    self->reads++;
    if (size <= 0) r = -1;                         /* recv(fd, buf, 0) == 0 -> HAL returns -1 */
    else if (self->rxLen > 0) {
        r = size < self->rxLen ? size : self->rxLen;
        memcpy(buf, self->rx + self->rxHead, r);
        self->rxHead += r; self->rxLen -= r;
        if (self->rxLen == 0) self->rxHead = 0;
    }
    else if (self->peerClosed) r = -1;
    else r = 0;
    pthread_mutex_unlock(&sim_mx);
    return r;
}
int Socket_write(Socket self, uint8_t* buf, int size)
{
    if (!self || self->destroyed) return -1;
    if (self->writeMode == 1) return -1;
    if (self->writeMode == 2) return 0;
    pthread_mutex_lock(&sim_mx);
    self->writes++;
    if (self->txLen + size > self->txCap) { self->txCap = (self->txLen + size) * 2; self->tx = realloc(self->tx, self->txCap); }
    memcpy(self->tx + self->txLen, buf, size); self->txLen += size;
    pthread_mutex_unlock(&sim_mx);
    return size;
}
char* Socket_getLocalAddress(Socket self) { (void) self; return strdup("10.0.0.1:2404"); }
char* Socket_getPeerAddress(Socket self) { return strdup(self->peer); }
char* Socket_getPeerAddressStatic(Socket self, char* out) { if (!self) return NULL; strcpy(out, self->peer); return out; }
void Socket_destroy(Socket self) { if (self) self->destroyed = 1; }   /* struct stays alive for the harness */

UdpSocket UdpSocket_create(void) { return NULL; }
UdpSocket UdpSocket_createIpV6(void) { return NULL; }
bool UdpSocket_addGroupMembership(UdpSocket s, const char* a) { (void) s; (void) a; return false; }
bool UdpSocket_setMulticastTtl(UdpSocket s, int t) { (void) s; (void) t; return false; }
bool UdpSocket_bind(UdpSocket s, const char* a, int p) { (void) s; (void) a; (void) p; return false; }
bool UdpSocket_sendTo(UdpSocket s, const char* a, int p, uint8_t* m, int n) { (void) s; (void) a; (void) p; (void) m; (void) n; return false; }
int UdpSocket_receiveFrom(UdpSocket s, char* a, int m, uint8_t* b, int n) { (void) s; (void) a; (void) m; (void) b; (void) n; return -1; }

/* ------------------------------------------------------------------ threads + instrumented semaphores */
struct sThread { ThreadExecutionFunction fn; void* par; pthread_t th; int started; bool autodestroy; };
static void* thread_tramp(void* p)
{
    Thread t = p; t->fn(t->par);
    if (t->autodestroy) free(t);
    return NULL;
}
Thread Thread_create(ThreadExecutionFunction f, void* par, bool autodestroy)
{
    Thread t = calloc(1, sizeof *t); t->fn = f; t->par = par; t->autodestroy = autodestroy; return t;
}
void Thread_start(Thread t)
{
    if (pthread_create(&t->th, NULL, thread_tramp, t) == 0) { t->started = 1; if (t->autodestroy) pthread_detach(t->th); }
}
void Thread_destroy(Thread t) { if (t->started) pthread_join(t->th, NULL); free(t); }
void Thread_sleep(int ms) { if (sim_sleep_hook) sim_sleep_hook(ms); else usleep(ms > 0 ? 100 : 0); }

typedef struct { sem_t sem; int initial; pthread_t owner; int held; } SimSem;
volatile int sim_sem_errors = 0;
char sim_sem_error_text[256];
static void sem_err(const char* what, SimSem* s)
{
    if (sim_sem_errors == 0) snprintf(sim_sem_error_text, sizeof sim_sem_error_text, "%s", what);
    (void) s;
    __sync_fetch_and_add(&sim_sem_errors, 1);
}
Semaphore Semaphore_create(int initialValue)
{
    SimSem* s = calloc(1, sizeof *s); sem_init(&s->sem, 0, initialValue); s->initial = initialValue; return s;
}
void Semaphore_wait(Semaphore self)
{
    SimSem* s = self;
    if (s->held && pthread_equal(s->owner, pthread_self())) {
        sem_err("wait on a semaphore already held by this thread (self-deadlock)", s);
        /* in a single-threaded harness this would block forever: report and fall through without blocking */
        int v; sem_getvalue(&s->sem, &v); if (v == 0) return;
    }
    sem_wait(&s->sem);
    s->owner = pthread_self(); s->held = 1;
}
void Semaphore_post(Semaphore self)
{
    SimSem* s = self;
    int v; sem_getvalue(&s->sem, &v);
    if (v >= s->initial) sem_err("post on a semaphore that is not held (value would exceed its initial value)", s);
    else if (s->held && !pthread_equal(s->owner, pthread_self())) sem_err("post by a thread that does not hold the semaphore", s);
    s->held = 0;
    sem_post(&s->sem);
}
void Semaphore_destroy(Semaphore self) { SimSem* s = self; if (s) { sem_destroy(&s->sem); free(s); } }
int Sim_semValue(Semaphore self) { SimSem* s = self; int v; sem_getvalue(&s->sem, &v); return v; }

/* ------------------------------------------------------------------ serial */
SerialPort SerialPort_create(const char* n, int baud, uint8_t d, char p, uint8_t st)
{
    (void) n; (void) d; (void) p; (void) st;
    SerialPort s = calloc(1, sizeof *s); s->baud = baud; return s;
}
void SerialPort_destroy(SerialPort self) { free(self); }
bool SerialPort_open(SerialPort self) { self->opened = 1; return true; }
void SerialPort_close(SerialPort self) { self->opened = 0; }
int SerialPort_getBaudRate(SerialPort self) { return self->baud; }
void SerialPort_setTimeout(SerialPort self, int t) { self->timeout = t; }
void SerialPort_discardInBuffer(SerialPort self) { self->rxHead = 0; self->rxLen = 0; }
int SerialPort_readByte(SerialPort self)
{
    if (self->rxLen == 0) return -1;
    int b = self->rx[self->rxHead++]; self->rxLen--;
    if (self->rxLen == 0) self->rxHead = 0;
    return b;
}
void Sim_serialFeed(SerialPort p, const uint8_t* d, int n)
{
    if (p->rxHead > 0) { memmove(p->rx, p->rx + p->rxHead, p->rxLen); p->rxHead = 0; }
    if (p->rxLen + n > (int) sizeof p->rx) n = (int) sizeof p->rx - p->rxLen;
    memcpy(p->rx + p->rxLen, d, n); p->rxLen += n;
}
int SerialPort_write(SerialPort self, uint8_t* buffer, int startPos, int n)
{
    self->writes++;
    if (self->txLen + n <= (int) sizeof self->txlog) { memcpy(self->txlog + self->txLen, buffer + startPos, n); self->txLen += n; }
    if (self->peer) {
        if (self->dropTx > 0) self->dropTx--;
        else {
            Sim_serialFeed(self->peer, buffer + startPos, n);
            if (self->dupTx > 0) { self->dupTx--; Sim_serialFeed(self->peer, buffer + startPos, n); }
        }
    }
    return n;
}
SerialPortError SerialPort_getLastError(SerialPort self) { (void) self; return SERIAL_PORT_ERROR_NONE; }
void Sim_serialConnect(SerialPort a, SerialPort b) { a->peer = b; b->peer = a; }
int Sim_serialTakeTx(SerialPort p, uint8_t* out, int max)
{
    int n = p->txLen < max ? p->txLen : max;
    memcpy(out, p->txlog, n); memmove(p->txlog, p->txlog + n, p->txLen - n); p->txLen -= n;
    return n;
}
