/* simulated HAL: in-memory sockets / serial ports, virtual clock, instrumented semaphores.
 * Replaces src/hal/{socket,thread,time,serial}; the protocol code above it is the real library. */
#ifndef SIMHAL_H
#define SIMHAL_H
#include <stdint.h>
#include <stdbool.h>
#include "hal_socket.h"
#include "hal_thread.h"
#include "hal_time.h"
#include "hal_serial.h"

#define SIM_BUF 262144

struct sSocket {
    int id;
    uint8_t* rx; int rxHead, rxLen, rxCap;     /* bytes the library can read */
    uint8_t* tx; int txLen, txCap;              /* bytes the library wrote, not yet taken by the harness */
    int peerClosed;                             /* peer closed: read returns -1 once rx is drained */
    int writeMode;                              /* 0 ok, 1 -> -1, 2 -> 0 (EAGAIN) */
    int destroyed;                              /* library called Socket_destroy */
    int connectResult;                          /* for client sockets */
    char peer[64];
    long reads, writes;
};

/* harness side */
void    Sim_reset(void);
void    Sim_setTime(uint64_t ms);
uint64_t Sim_time(void);
void    Sim_advance(uint64_t ms);
Socket  Sim_newPeer(const char* peerAddr);          /* queue an incoming connection for ServerSocket_accept */
void    Sim_feed(Socket s, const uint8_t* data, int n);
int     Sim_takeTx(Socket s, uint8_t* out, int max);
void    Sim_peerClose(Socket s);
void    Sim_freeSocket(Socket s);
extern int  sim_connect_result;                     /* what the next client connect attempt returns (1 ok, 0 refused) */
extern Socket sim_last_client_socket;
extern int  (*sim_wait_hook)(HandleSet hs, unsigned int timeoutMs, int ready); /* threaded harnesses gate here */
extern void (*sim_sleep_hook)(int ms);

/* semaphore instrumentation */
extern volatile int sim_sem_errors;
extern char sim_sem_error_text[256];
int Sim_semValue(Semaphore s);

/* serial */
struct sSerialPort {
    uint8_t rx[8192]; int rxHead, rxLen;
    uint8_t txlog[65536]; int txLen;
    struct sSerialPort* peer;      /* cross-connected port, or NULL */
    int dropTx;                    /* number of next written frames to lose (not delivered to peer) */
    int dupTx;                     /* number of next written frames to deliver twice */
    int baud; int timeout; int opened; long writes;
};
void Sim_serialConnect(SerialPort a, SerialPort b);
void Sim_serialFeed(SerialPort p, const uint8_t* d, int n);
int  Sim_serialTakeTx(SerialPort p, uint8_t* out, int max);
#endif
