/* C19 harness: runs the REAL getters/setters (white-box include so that static helpers are
 * reachable) on scripts shared with the extracted model (driver/d_time.ml).
 *   call <fn> <hexbuf|-> <intarg|->   ->  <hexbuf> <ret|->
 *   civil <time_t>                    ->  gmtime_r fields
 * native sweeps (property oracle evaluated on the implementation only, no model involved):
 *   secs <fromsec> <tosec> <step>     ->  CP56 ms->tag->ms identity, prints failures + "done n"
 *   floats <frombits> <tobits> <step> ->  saturation / range / raw round trip oracle on float bit patterns */
#include <stdio.h>
#include <stdlib.h>
#include <string.h>
#include <stdint.h>
#include <time.h>
#include <math.h>
#include "cpXXtime2a.c"
#include "cs101_information_objects.c"
#include "iec60870_common.h"

static float bits2f(long long b) { uint32_t u = (uint32_t) b; float f; memcpy(&f, &u, 4); return f; }
static uint32_t f2bits(float f) { uint32_t u; memcpy(&u, &f, 4); return u; }

#include "time_table.inc"

static int hexval(char c) { return c <= '9' ? c - '0' : (c | 32) - 'a' + 10; }

int main(int argc, char** argv)
{
    char line[4096];
    while (fgets(line, sizeof line, stdin)) {
        char cmd[32], name[128], hex[1024], arg[64];
        if (sscanf(line, "%31s", cmd) != 1) continue;
        if (!strcmp(cmd, "call")) {
            if (sscanf(line, "%*s %127s %1023s %63s", name, hex, arg) != 3) { puts("?"); continue; }
            int n = strcmp(hex, "-") ? (int) strlen(hex) / 2 : 0;
            /* exact-size heap block: ASan sees any access outside the record */
            uint8_t* buf = malloc(n ? n : 1);
            for (int i = 0; i < n; i++) buf[i] = (uint8_t) (hexval(hex[2 * i]) * 16 + hexval(hex[2 * i + 1]));
            long long iarg = strcmp(arg, "-") ? atoll(arg) : 0, ret = 0; int hasret = 0;
            if (!dispatch(name, buf, iarg, &ret, &hasret)) { puts("?"); free(buf); continue; }
            if (n == 0) printf("-"); else for (int i = 0; i < n; i++) printf("%02x", buf[i]);
            if (hasret) printf(" %lld\n", ret); else printf(" -\n");
            free(buf);
        }
        else if (!strcmp(cmd, "civil")) {
            long long t; sscanf(line, "%*s %lld", &t);
            time_t tt = (time_t) t; struct tm tmv; gmtime_r(&tt, &tmv);
            printf("%d %d %d %d %d %d\n", tmv.tm_sec, tmv.tm_min, tmv.tm_hour, tmv.tm_mday, tmv.tm_mon, tmv.tm_year);
        }
        else if (!strcmp(cmd, "secs")) {
            long long a, b, step; sscanf(line, "%*s %lld %lld %lld", &a, &b, &step);
            long long n = 0, bad = 0;
            static const int mss[] = {0, 1, 499, 999};
            for (long long s = a; s < b; s += step) {
                for (int k = 0; k < 4; k++) {
                    uint64_t t = (uint64_t) s * 1000 + mss[k];
                    struct sCP56Time2a tag; memset(&tag, 0xa5, sizeof tag);
                    CP56Time2a_setFromMsTimestamp(&tag, t);
                    uint64_t back = CP56Time2a_toMsTimestamp(&tag);
                    n++;
                    if (back != t) { if (bad < 5) printf("bad %llu %llu\n", (unsigned long long) t, (unsigned long long) back); bad++; }
                }
            }
            printf("done %lld %lld\n", n, bad);
        }
        else if (!strcmp(cmd, "floats")) {
            unsigned long long a, b, step; sscanf(line, "%*s %llu %llu %llu", &a, &b, &step);
            long long n = 0, bad = 0;
            const float NMAXF = 32767.f / 32768.f;
            for (unsigned long long w = a; w < b; w += step) {
                float f = bits2f((long long) w);
                if (f != f) continue; /* NaN excluded by the property */
                int r = NormalizedValue_toScaled(f);
                int ok = (r >= -32768 && r <= 32767);
                if (f > NMAXF) ok = ok && (r == 32767);
                if (f < -1.0f) ok = ok && (r == -32768);
                n++;
                if (!ok) { if (bad < 5) printf("bad %llu %d\n", w, r); bad++; }
            }
            printf("done %lld %lld\n", n, bad);
        }
        else puts("?");
        fflush(stdout);
    }
    return 0;
}
