/* h_ll: drives ONE real link-layer station of lib60870 (link_layer.c + serial_transceiver_ft_1_2.c) on the
 * simulated serial port from a script of raw octets, clock ticks and application requests.
 * White-box (#include of link_layer.c) only to dump the state variables after every command; every
 * protocol decision is the library's.  The application layer above the link layer is a stub kept here
 * (FIFO lists of raw user data), so user data of any length 0..255 can be used.
 *
 * script (one command per line; several scripts per process separated by `--- <id>`):
 *   cfg kind=us|bal|up al=<0|1|2> sc=<0|1> addr=<n> other=<n> dir=<0|1> tack=<ms> trep=<ms> tls=<ms>
 *       idle=<ms> slaves=<a,b,c> indret=<0|1> t=<ms> fix=<letters>      (fix= is ignored here; for the model)
 *   feed <hex>            octets become readable (no step)
 *   rx <hex>              octets become readable, then one run step
 *   run                   one run step (read at most one frame, then the primary state machine)
 *   tick <ms>             advance the virtual clock, then one run step
 *   enq1 <hex> | enq2 <hex>   (us) application queues class 1 / class 2 user data
 *   send <hex>            (bal) application queues user data for SEND/CONFIRM
 *   send a=<n> <hex>      (up)  LinkLayerPrimaryUnbalanced_sendConfirmed
 *   bcast <hex>           (up)  LinkLayerPrimaryUnbalanced_sendNoReply to the broadcast address
 *   poll1 a=<n> | poll2 a=<n>   (up) request class 1 / class 2 data
 *   test [a=<n>]          link test function
 * trace:
 *   rxmsg <hex>           frame delimited by the transceiver and handed to the link layer
 *   tx <hex>              frame written to the serial port
 *   ind bc=<b> <hex>      HandleReceivedData (secondary)        ud a=<n> <hex>   UserData (unbalanced primary)
 *   acd a=<n>             AccessDemand         rcu <b>  ResetCUReceived      ls a=<n> <state>  link state changed
 *   ret <0|1>             result of send/bcast/poll
 *   st ...                state dump after every command */
#include <stdio.h>
#include <stdlib.h>
#include <string.h>
#include "simhal.h"
#include "link_layer.c"

static int hexval(char c) { return c <= '9' ? c - '0' : (c | 32) - 'a' + 10; }
static int unhex(const char* s, uint8_t* out) { if (!strcmp(s, "-")) return 0; int n = (int) strlen(s) / 2; for (int i = 0; i < n; i++) out[i] = (uint8_t) (hexval(s[2 * i]) * 16 + hexval(s[2 * i + 1])); return n; }
static void puthex(const uint8_t* b, int n) { if (n <= 0) printf("-"); for (int i = 0; i < n; i++) printf("%02x", b[i]); }

enum { K_NONE, K_US, K_BAL, K_UP };
static int kind = K_NONE;
static struct sLinkLayerParameters llp;
static SerialPort port;
static SerialTransceiverFT12 trx;
static LinkLayerSecondaryUnbalanced us;
static LinkLayerBalanced bal;
static LinkLayerPrimaryUnbalanced up;
static int indret = 1;
static int slaveAddrs[8], nslaves;
static long txTotal;

/* stub application layer: two FIFOs of raw user data */
typedef struct { uint8_t d[256]; int n; } Item;
static Item q1[256], q2[256]; static int n1, n2;
static void qpush(Item* q, int* n, const uint8_t* d, int len) { if (*n < 256) { memcpy(q[*n].d, d, len); q[*n].n = len; (*n)++; } }
static Frame qpop(Item* q, int* n, Frame frame)
{
    if (*n == 0) return NULL;
    Frame_appendBytes(frame, q[0].d, q[0].n);
    memmove(q, q + 1, sizeof(Item) * (*n - 1)); (*n)--;
    return frame;
}
static bool a_isClass1(void* p) { (void) p; return n1 > 0; }
static Frame a_get1(void* p, Frame f) { (void) p; return qpop(q1, &n1, f); }
static Frame a_get2(void* p, Frame f) { (void) p; return qpop(q2, &n2, f); }
static bool a_ind(void* p, uint8_t* msg, bool bc, int start, int len) { (void) p; printf("ind bc=%d ", bc); puthex(msg + start, len); printf("\n"); return indret != 0; }
static void a_rcu(void* p, bool only) { (void) p; printf("rcu %d\n", only); }
static struct sISecondaryApplicationLayer appSec = { a_isClass1, a_get1, a_get2, a_ind, a_rcu };
static struct sIBalancedApplicationLayer appBal = { a_get1, a_ind };
static void a_acd(void* p, int a) { (void) p; printf("acd a=%d\n", a); LinkLayerPrimaryUnbalanced_requestClass1Data(up, a); /* what cs101_master.c does */ }
static void a_ud(void* p, int a, uint8_t* msg, int start, int len) { (void) p; printf("ud a=%d ", a); puthex(msg + start, len); printf("\n"); }
static void a_to(void* p, int a) { (void) p; printf("timeout a=%d\n", a); }
static struct sIPrimaryApplicationLayer appPri = { a_acd, a_ud, a_to };

/* (C10) `autostatus a=<addr>`: a scripted peer with that address answers every REQUEST STATUS OF LINK (and nothing else) with
   STATUS OF LINK -- a slave that can be reached but never confirms the reset.  Not mirrored by the model driver. */
static int auto_status_addr = -1;
static void on_raw(void* p, uint8_t* msg, int size, bool sent)
{
    (void) p; printf(sent ? "tx " : "rxmsg "); puthex(msg, size); printf("\n"); if (sent) txTotal += size;
    int al = llp.addressLength;
    if (sent && auto_status_addr >= 0 && size == 4 + al && msg[0] == 0x10 && (msg[1] & 0x4f) == 0x49) {
        int a = al == 0 ? 0 : (al == 1 ? msg[2] : msg[2] | (msg[3] << 8));
        if (a == auto_status_addr) {
            uint8_t r[8]; int n = 0; r[n++] = 0x10; r[n++] = 0x0b; int cs = 0x0b;
            for (int i = 0; i < al; i++) { r[n] = msg[2 + i]; cs += r[n]; n++; }
            r[n++] = (uint8_t) cs; r[n++] = 0x16;
            Sim_serialFeed(port, r, n);
        }
    }
}
static void on_ls(void* p, int a, LinkLayerState s) { (void) p; printf("ls a=%d %d\n", a, (int) s); }

static void destroy_all(void)
{
    if (us) { LinkLayerSecondaryUnbalanced_destroy(us); us = NULL; }
    if (bal) { LinkLayerBalanced_destroy(bal); bal = NULL; }
    if (up) { LinkLayerPrimaryUnbalanced_destroy(up); up = NULL; }
    if (trx) { SerialTransceiverFT12_destroy(trx); trx = NULL; }
    if (port) { SerialPort_destroy(port); port = NULL; }
    kind = K_NONE; n1 = n2 = 0; nslaves = 0; txTotal = 0; auto_status_addr = -1;
}

static int kv(const char* line, const char* key, int dflt)
{
    char pat[40]; snprintf(pat, sizeof pat, " %s=", key);
    const char* p = strstr(line, pat);
    return p ? atoi(p + strlen(pat)) : dflt;
}

static void do_cfg(const char* line)
{
    destroy_all();
    char k[8] = "us"; const char* p = strstr(line, " kind="); if (p) sscanf(p + 6, "%7s", k);
    llp.addressLength = kv(line, "al", 1); llp.useSingleCharACK = kv(line, "sc", 0) != 0;
    llp.timeoutForAck = kv(line, "tack", 200); llp.timeoutRepeat = kv(line, "trep", 1000); llp.timeoutLinkState = kv(line, "tls", 5000);
    indret = kv(line, "indret", 1);
    Sim_setTime((uint64_t) kv(line, "t", 1000));
    port = SerialPort_create("sim", 9600, 8, 'E', 1); SerialPort_open(port);
    trx = SerialTransceiverFT12_create(port, &llp);
    SerialTransceiverFT12_setRawMessageHandler(trx, on_raw, NULL);
    int addr = kv(line, "addr", 1);
    if (!strcmp(k, "us")) {
        kind = K_US;
        us = LinkLayerSecondaryUnbalanced_create(addr, trx, &llp, &appSec, NULL);
        LinkLayerSecondaryUnbalanced_setStateChangeHandler(us, on_ls, NULL);
        LinkLayerSecondaryUnbalanced_setIdleTimeout(us, kv(line, "idle", 500));
    }
    else if (!strcmp(k, "bal")) {
        kind = K_BAL;
        bal = LinkLayerBalanced_create(addr, trx, &llp, &appBal, NULL);
        LinkLayerBalanced_setDIR(bal, kv(line, "dir", 0) != 0);
        LinkLayerBalanced_setOtherStationAddress(bal, kv(line, "other", 2));
        LinkLayerBalanced_setStateChangeHandler(bal, on_ls, NULL);
        LinkLayerBalanced_setIdleTimeout(bal, kv(line, "idle", 5000));
    }
    else {
        kind = K_UP;
        up = LinkLayerPrimaryUnbalanced_create(trx, &llp, &appPri, NULL);
        LinkLayerPrimaryUnbalanced_setStateChangeHandler(up, on_ls, NULL);
        p = strstr(line, " slaves=");
        if (p) { p += 8; while (*p && *p != ' ' && *p != '\n') { int a = atoi(p); slaveAddrs[nslaves++] = a; LinkLayerPrimaryUnbalanced_addSlaveConnection(up, a); while (*p && *p != ',' && *p != ' ' && *p != '\n') p++; if (*p == ',') p++; } }
    }
}

static void run_once(void)
{
    if (kind == K_US) LinkLayerSecondaryUnbalanced_run(us);
    else if (kind == K_BAL) LinkLayerBalanced_run(bal);
    else if (kind == K_UP) LinkLayerPrimaryUnbalanced_run(up);
}

static void dump(void)
{
    if (port) { static uint8_t sink[65536]; int n = Sim_serialTakeTx(port, sink, sizeof sink); if (n != txTotal) printf("txlog-mismatch %d %ld\n", n, txTotal); txTotal = 0; }
    if (kind == K_US) printf("st us ls=%d efcb=%d uds=%d\n", (int) us->state, us->expectedFcb, us->_linkLayer.userDataSize);
    else if (kind == K_BAL) {
        struct sLinkLayerPrimaryBalanced* p = &bal->primaryLinkLayer;
        printf("st bal ls=%d ps=%d w=%d nfcb=%d test=%d efcb=%d\n", (int) p->state, (int) p->primaryState, p->waitingForResponse, p->nextFcb, p->sendLinkLayerTestFunction, bal->secondaryLinkLayer.expectedFcb);
    }
    else if (kind == K_UP) {
        int cur = -1;
        for (int i = 0; i < nslaves; i++) if (up->currentSlave && up->currentSlave->address == slaveAddrs[i]) cur = i;
        printf("st up cur=%d idx=%d bc=%d", cur, up->currentSlaveIndex, up->hasNextBroadcastToSend);
        for (int i = 0; i < nslaves; i++) {
            LinkLayerSlaveConnection s = LinkLayerPrimaryUnbalanced_getSlaveConnection(up, slaveAddrs[i]);
            printf(" [a=%d ls=%d ps=%d w=%d nfcb=%d has=%d r1=%d r2=%d test=%d]", s->address, (int) s->state, (int) s->primaryState, s->waitingForResponse, s->nextFcb, s->hasMessageToSend, s->requestClass1Data, s->requestClass2Data, s->sendLinkLayerTestFunction);
        }
        printf("\n");
    }
}

int main(void)
{
    static char line[4096]; static uint8_t b[2048]; static char a1[4096];
    setvbuf(stdout, NULL, _IOFBF, 1 << 16);
    while (fgets(line, sizeof line, stdin)) {
        char cmd[32];
        if (sscanf(line, "%31s", cmd) != 1) continue;
        if (!strcmp(cmd, "---")) { fputs(line, stdout); fflush(stdout); continue; }
        if (!strcmp(cmd, "cfg")) { do_cfg(line); dump(); continue; }
        if (kind == K_NONE) { printf("? no station\n"); continue; }
        int addr = kv(line, "a", nslaves ? slaveAddrs[0] : 0);
        /* last token is the hex payload where one is expected */
        a1[0] = 0; { char* sp = strrchr(line, ' '); if (sp) sscanf(sp + 1, "%4095s", a1); }
        if (!strcmp(cmd, "feed") || !strcmp(cmd, "rx")) { int n = unhex(a1, b); Sim_serialFeed(port, b, n); if (cmd[0] == 'r') run_once(); }
        else if (!strcmp(cmd, "run")) run_once();
        else if (!strcmp(cmd, "autostatus")) auto_status_addr = kv(line, "a", -1);
        else if (!strcmp(cmd, "tick")) { Sim_advance((uint64_t) atoi(a1)); run_once(); }
        else if (!strcmp(cmd, "enq1")) { int n = unhex(a1, b); qpush(q1, &n1, b, n); }
        else if (!strcmp(cmd, "enq2")) { int n = unhex(a1, b); qpush(q2, &n2, b, n); }
        else if (!strcmp(cmd, "send")) {
            int n = unhex(a1, b);
            if (kind == K_UP) { struct sBufferFrame f; BufferFrame_initialize(&f, b, n); printf("ret %d\n", LinkLayerPrimaryUnbalanced_sendConfirmed(up, addr, &f)); }
            else qpush(q1, &n1, b, n);
        }
        else if (!strcmp(cmd, "bcast") && kind == K_UP) { int n = unhex(a1, b); struct sBufferFrame f; BufferFrame_initialize(&f, b, n); printf("ret %d\n", LinkLayerPrimaryUnbalanced_sendNoReply(up, LinkLayer_getBroadcastAddress(up->linkLayer), &f)); }
        else if (!strcmp(cmd, "poll1") && kind == K_UP) printf("ret %d\n", LinkLayerPrimaryUnbalanced_requestClass1Data(up, addr));
        else if (!strcmp(cmd, "poll2") && kind == K_UP) printf("ret %d\n", LinkLayerPrimaryUnbalanced_requestClass2Data(up, addr));
        else if (!strcmp(cmd, "test")) { if (kind == K_UP) LinkLayerPrimaryUnbalanced_sendLinkLayerTestFunction(up, addr); else if (kind == K_BAL) LinkLayerBalanced_sendLinkLayerTestFunction(bal); }
        else { printf("? %s", line); continue; }
        dump();
    }
    destroy_all();
    return 0;
}
