/* h_cs104s: drives the REAL CS104 slave (threadless mode) on the simulated HAL from a script.
 * White-box (#include of cs104_slave.c) only to identify connections in callbacks, to start the
 * sequence counters near the wrap and to dump queue/k-buffer state; every protocol decision is the library's.
 *
 * script (one command per line; several scripts per process separated by `--- <id>`):
 *   cfg key=val ...         k w t0 t1 t2 t3 mode(0 single,1 conn,2 multi) lowq highq maxconn cot ca ioa maxasdu
 *                           handlers(bit mask) hret burst bsize term reqret raw
 *                           setmax (1: call CS104_Slave_setMaxOpenConnections(maxconn) also for maxconn <= 0 = "no limit")
 *   group <ip,ip,...|->     add a redundancy group (before start; `-` = catch-all)
 *   start | stop | destroy | restart
 *   connect c<i> <peer>     queue an incoming TCP connection (accepted by the next tick)
 *   tick [n]                CS104_Slave_tick n times
 *   adv <ms>                advance the virtual clock
 *   rx c<i> <hex>           bytes become readable on connection i
 *   enq <asdu-hex>          CS104_Slave_enqueueASDU
 *   peerclose c<i> | wmode c<i> <0|1|2> | appclose c<i>
 *   poke c<i> vs=<n> vr=<n> start both counters at n (white-box)
 *   dump                    white-box state of every used connection and queue
 *   create                  (C18) CS104_Slave_create + configuration without starting (start/group also create on demand)
 *   slots                   (C18) white-box: `slots used=<n> running=<n> started=<n>` counted over the connection table
 *   halnull                 (C18) `halnull <n>`: how often the library handed a NULL server socket to the HAL since the last query
 * trace: tx / ev / cb / send / req / open / st / q / sem lines (see DESIGN Appendix B) */
#include <stdio.h>
#include <stdlib.h>
#include <string.h>
#include "simhal.h"
/* (C18) the simulated HAL tolerates a NULL listener, the real one (socket_linux.c ServerSocket_accept) dereferences it:
   count such calls made by the library; nothing is printed unless a script asks with `halnull` */
static int hal_null_calls = 0;
static Socket h_ServerSocket_accept(ServerSocket s) { if (!s) hal_null_calls++; return ServerSocket_accept(s); }
#define ServerSocket_accept h_ServerSocket_accept
#include "cs104_slave.c"
#undef ServerSocket_accept

#define MAXC 192
static CS104_Slave slave = NULL;
static Socket socks[MAXC];
static int nsocks = 0;
static CS104_RedundancyGroup groups[8]; static int ngroups = 0;

static struct {
    int k, w, t0, t1, t2, t3, mode, lowq, highq, maxconn, cot, ca, ioa, maxasdu;
    int handlers, hret, burst, bsize, term, reqret, raw;
    int setmax;
} cfg;
static int reply_counter = 0;
/* a well-behaved peer kept by the harness: how many I-frames it has sent / has seen from the server */
static int peer_ns[MAXC], peer_seen[MAXC];

static void cfg_default(void)
{
    memset(&cfg, 0, sizeof cfg);
    cfg.k = 12; cfg.w = 8; cfg.t0 = 10; cfg.t1 = 15; cfg.t2 = 10; cfg.t3 = 20; cfg.mode = 0; cfg.lowq = 10; cfg.highq = 10;
    cfg.maxconn = 0; cfg.cot = 2; cfg.ca = 2; cfg.ioa = 3; cfg.maxasdu = 249; cfg.handlers = 0; cfg.hret = 1;
    cfg.burst = 0; cfg.bsize = 10; cfg.term = 0; cfg.reqret = 1; cfg.raw = 0;
}

static int hexval(char c) { return c <= '9' ? c - '0' : (c | 32) - 'a' + 10; }
static int unhex(const char* s, uint8_t* out) { int n = (int) strlen(s) / 2; for (int i = 0; i < n; i++) out[i] = (uint8_t) (hexval(s[2 * i]) * 16 + hexval(s[2 * i + 1])); return n; }
static void puthex(const uint8_t* b, int n) { if (n == 0) printf("-"); for (int i = 0; i < n; i++) printf("%02x", b[i]); }

static int con_index(IMasterConnection c)
{
    MasterConnection mc = (MasterConnection) c->object;
    for (int i = 0; i < nsocks; i++) if (socks[i] && socks[i] == mc->socket) return i;
    return -1;
}
static MasterConnection con_of(int ci)
{
    if (!slave || ci < 0 || ci >= nsocks || !socks[ci]) return NULL;
    for (int i = 0; i < CONFIG_CS104_MAX_CLIENT_CONNECTIONS; i++) {
        MasterConnection mc = slave->masterConnections[i];
        if (mc && mc->isUsed && mc->socket == socks[ci]) return mc;
    }
    return NULL;
}

static void print_asdu(CS101_ASDU asdu)
{
    puthex(asdu->asdu, asdu->asduHeaderLength + asdu->payloadSize);
}

/* replies issued from inside a handler: ACT_CON, `burst` data ASDUs with a running id, optional ACT_TERM */
static void do_burst(IMasterConnection con, CS101_ASDU req)
{
    int ci = con_index(con);
    CS101_AppLayerParameters alp = IMasterConnection_getApplicationLayerParameters(con);
    bool r = IMasterConnection_sendACT_CON(con, req, false);
    printf("send c%d actcon ret=%d\n", ci, r);
    for (int i = 0; i < cfg.burst; i++) {
        sCS101_StaticASDU st;
        CS101_ASDU a = CS101_ASDU_initializeStatic(&st, alp, false, CS101_COT_INTERROGATED_BY_STATION, 0, CS101_ASDU_getCA(req), false, false);
        CS101_ASDU_setTypeID(a, (IEC60870_5_TypeID) 200);
        CS101_ASDU_setNumberOfElements(a, 1);
        uint8_t pl[256]; memset(pl, 0xee, sizeof pl);
        int id = reply_counter++;
        pl[0] = (uint8_t) (id & 255); pl[1] = (uint8_t) (id >> 8);
        int sz = cfg.bsize; int hdr = 2 + alp->sizeOfCOT + alp->sizeOfCA; if (sz + hdr > 249) sz = 249 - hdr; if (sz < 2) sz = 2;
        CS101_ASDU_addPayload(a, pl, sz);
        bool rr = IMasterConnection_sendASDU(con, a);
        printf("send c%d reply=%d ret=%d\n", ci, id, rr);
    }
    if (cfg.term) { bool rr = IMasterConnection_sendACT_TERM(con, req); printf("send c%d actterm ret=%d\n", ci, rr); }
}

static bool h_interrogation(void* p, IMasterConnection con, CS101_ASDU asdu, uint8_t qoi)
{ printf("cb interrogation c%d qoi=%d asdu=", con_index(con), qoi); print_asdu(asdu); printf("\n"); if (cfg.hret) do_burst(con, asdu); return cfg.hret; }
static bool h_counter(void* p, IMasterConnection con, CS101_ASDU asdu, QualifierOfCIC qcc)
{ printf("cb counter c%d qcc=%d asdu=", con_index(con), qcc); print_asdu(asdu); printf("\n"); if (cfg.hret) do_burst(con, asdu); return cfg.hret; }
static bool h_read(void* p, IMasterConnection con, CS101_ASDU asdu, int ioa)
{ printf("cb read c%d ioa=%d asdu=", con_index(con), ioa); print_asdu(asdu); printf("\n"); return cfg.hret; }
static bool h_clock(void* p, IMasterConnection con, CS101_ASDU asdu, CP56Time2a t)
{ printf("cb clock c%d time=", con_index(con)); puthex(t->encodedValue, 7); printf(" asdu="); print_asdu(asdu); printf("\n"); return cfg.hret; }
static bool h_reset(void* p, IMasterConnection con, CS101_ASDU asdu, uint8_t qrp)
{ printf("cb reset c%d qrp=%d asdu=", con_index(con), qrp); print_asdu(asdu); printf("\n"); return cfg.hret; }
static bool h_delay(void* p, IMasterConnection con, CS101_ASDU asdu, CP16Time2a d)
{ printf("cb delay c%d delay=%d asdu=", con_index(con), CP16Time2a_getEplapsedTimeInMs(d)); print_asdu(asdu); printf("\n"); return cfg.hret; }
static bool h_asdu(void* p, IMasterConnection con, CS101_ASDU asdu)
{ printf("cb asdu c%d asdu=", con_index(con)); print_asdu(asdu); printf("\n"); return cfg.hret; }
static bool h_request(void* p, const char* ip) { printf("req %s ret=%d\n", ip, cfg.reqret); return cfg.reqret; }
static int send_on_act = 0;
static int close_on_open = 0;   /* (C18) `closeonopen <0|1>`: the application turns every peer away from inside the OPENED notification */
static void h_event(void* p, IMasterConnection con, CS104_PeerConnectionEvent ev)
{
    static const char* n[] = {"OPENED", "CLOSED", "ACTIVATED", "DEACTIVATED"};
    printf("ev c%d %s\n", con_index(con), n[ev]);
    if (close_on_open && ev == CS104_CON_EVENT_CONNECTION_OPENED) IMasterConnection_close(con);
    if (send_on_act && ev == CS104_CON_EVENT_ACTIVATED) {
        /* (C07) `sendonact <0|1>`: the application sends spontaneous data at once when it is told that the connection was activated */
        CS101_AppLayerParameters alp = IMasterConnection_getApplicationLayerParameters(con);
        CS101_ASDU a = CS101_ASDU_create(alp, false, CS101_COT_SPONTANEOUS, 0, 1, false, false);
        InformationObject io = (InformationObject) SinglePointInformation_create(NULL, 4242, true, IEC60870_QUALITY_GOOD);
        CS101_ASDU_addInformationObject(a, io); InformationObject_destroy(io);
        bool r = IMasterConnection_sendASDU(con, a);
        printf("send c%d onact ret=%d\n", con_index(con), r);
        CS101_ASDU_destroy(a);
    }
}
static void h_raw(void* p, IMasterConnection con, uint8_t* msg, int n, bool sent)
{ printf("raw c%d %s ", con_index(con), sent ? "out" : "in"); puthex(msg, n); printf("\n"); }

static void drain(void)
{
    uint8_t buf[65536];
    for (int i = 0; i < nsocks; i++) {
        if (!socks[i]) continue;
        int n = Sim_takeTx(socks[i], buf, sizeof buf);
        if (n > 0) {
            printf("tx c%d ", i); puthex(buf, n); printf("\n");
            for (int p = 0; p + 2 <= n; p += 2 + buf[p + 1]) { if (p + 2 < n && (buf[p + 2] & 1) == 0 && buf[p + 1] >= 4) peer_seen[i] = (peer_seen[i] + 1) % 32768; if (buf[p + 1] == 0) break; }
        }
    }
    if (sim_sem_errors) { printf("sem %d %s\n", sim_sem_errors, sim_sem_error_text); sim_sem_errors = 0; }
}

static void dump_queue(const char* tag, MessageQueue q)
{
    if (!q) return;
    printf("q %s n=%d", tag, q->entryCounter);
    if (q->entryCounter > 0) {
        uint8_t* e = q->firstEntry; int guard = 0;
        while (e && guard++ < 100000) {
            struct sMessageQueueEntryInfo info; memcpy(&info, e, sizeof info);
            printf(" %llu:%d:%d@%ld", (unsigned long long) info.entryId, info.entryState, info.size, (long) (e - q->buffer));
            if (e == q->lastEntry) break;
            if (e == q->lastInBufferEntry) e = q->buffer; else e = e + sizeof info + info.size;
        }
    }
    printf("\n");
}

static void dump(void)
{
    if (!slave) return;
    for (int i = 0; i < nsocks; i++) {
        MasterConnection mc = con_of(i);
        if (!mc) continue;
        printf("st c%d state=%d run=%d vs=%d vr=%d unconf=%d t2trig=%d wtest=%d old=%d new=%d k=", i, mc->state, mc->isRunning, mc->sendCount, mc->receiveCount,
               mc->unconfirmedReceivedIMessages, mc->timeoutT2Triggered, mc->waitingForTestFRcon, mc->oldestSentASDU, mc->newestSentASDU);
        if (mc->oldestSentASDU != -1) {
            int j = mc->oldestSentASDU;
            while (1) { printf("%d,", mc->sentASDUs[j].seqNo); if (j == mc->newestSentASDU) break; j = (j + 1) % mc->maxSentASDUs; }
        }
        int gi = -1; for (int g = 0; g < ngroups; g++) if (mc->redundancyGroup == groups[g]) gi = g;
        printf(" hp=%d rpos=%d grp=%d\n", mc->highPrioQueue ? mc->highPrioQueue->entryCounter : -1, mc->recvBufPos, gi);
    }
    if (slave->serverMode == CS104_MODE_SINGLE_REDUNDANCY_GROUP) dump_queue("single", slave->asduQueue);
    for (int g = 0; g < ngroups; g++) { char t[16]; snprintf(t, sizeof t, "g%d", g); dump_queue(t, groups[g]->asduQueue); }
}

static void make_slave(void)
{
    slave = CS104_Slave_create(cfg.lowq, cfg.highq);
    CS104_Slave_setServerMode(slave, (CS104_ServerMode) cfg.mode);
    CS104_APCIParameters ap = CS104_Slave_getConnectionParameters(slave);
    ap->k = cfg.k; ap->w = cfg.w; ap->t0 = cfg.t0; ap->t1 = cfg.t1; ap->t2 = cfg.t2; ap->t3 = cfg.t3;
    CS101_AppLayerParameters al = CS104_Slave_getAppLayerParameters(slave);
    al->sizeOfCOT = cfg.cot; al->sizeOfCA = cfg.ca; al->sizeOfIOA = cfg.ioa; al->maxSizeOfASDU = cfg.maxasdu;
    if (cfg.maxconn > 0) CS104_Slave_setMaxOpenConnections(slave, cfg.maxconn);
    else if (cfg.setmax) CS104_Slave_setMaxOpenConnections(slave, cfg.maxconn);   /* 0 / negative: the library's "no limit" */
    if (cfg.handlers & 1) CS104_Slave_setInterrogationHandler(slave, h_interrogation, NULL);
    if (cfg.handlers & 2) CS104_Slave_setCounterInterrogationHandler(slave, h_counter, NULL);
    if (cfg.handlers & 4) CS104_Slave_setReadHandler(slave, h_read, NULL);
    if (cfg.handlers & 8) CS104_Slave_setClockSyncHandler(slave, h_clock, NULL);
    if (cfg.handlers & 16) { slave->resetProcessHandler = h_reset; slave->resetProcessHandlerParameter = NULL; } /* no public setter is defined in cs104_slave.c */
    if (cfg.handlers & 32) { slave->delayAcquisitionHandler = h_delay; slave->delayAcquisitionHandlerParameter = NULL; }
    if (cfg.handlers & 64) CS104_Slave_setASDUHandler(slave, h_asdu, NULL);
    CS104_Slave_setConnectionRequestHandler(slave, h_request, NULL);
    CS104_Slave_setConnectionEventHandler(slave, h_event, NULL);
    if (cfg.raw) CS104_Slave_setRawMessageHandler(slave, h_raw, NULL);
}

static void reset_all(void)
{
    if (slave) { CS104_Slave_destroy(slave); slave = NULL; }
    for (int i = 0; i < nsocks; i++) { Sim_freeSocket(socks[i]); socks[i] = NULL; }
    /* sockets still queued for accept are dropped */
    nsocks = 0; ngroups = 0; reply_counter = 0; close_on_open = 0;
    Sim_reset(); Sim_setTime(1000000); sim_sem_errors = 0;
    cfg_default();
    hal_null_calls = 0;
}

int main(void)
{
    static char line[70000];
    setvbuf(stdout, NULL, _IOFBF, 1 << 16);
    cfg_default();
    while (fgets(line, sizeof line, stdin)) {
        char cmd[32];
        if (sscanf(line, "%31s", cmd) != 1) continue;
        if (!strcmp(cmd, "---")) { reset_all(); fputs(line, stdout); fflush(stdout); continue; }
        if (!strcmp(cmd, "cfg")) {
            char* tok = strtok(line, " \n");
            while ((tok = strtok(NULL, " \n"))) {
                char key[32]; int val;
                if (sscanf(tok, "%31[^=]=%d", key, &val) != 2) continue;
#define K(n) if (!strcmp(key, #n)) cfg.n = val;
                K(k) K(w) K(t0) K(t1) K(t2) K(t3) K(mode) K(lowq) K(highq) K(maxconn) K(cot) K(ca) K(ioa) K(maxasdu)
                K(handlers) K(hret) K(burst) K(bsize) K(term) K(reqret) K(raw) K(setmax)
            }
            if (slave) {   /* live re-configuration: the APCI parameters are read by the library at the points it chooses */
                CS104_APCIParameters ap = CS104_Slave_getConnectionParameters(slave);
                ap->k = cfg.k; ap->w = cfg.w; ap->t0 = cfg.t0; ap->t1 = cfg.t1; ap->t2 = cfg.t2; ap->t3 = cfg.t3;
            }
        }
        else if (!strcmp(cmd, "group")) {
            char ips[1024]; sscanf(line, "%*s %1023s", ips);
            if (!slave) make_slave();
            CS104_RedundancyGroup g = CS104_RedundancyGroup_create(NULL);
            if (strcmp(ips, "-")) { char* t = strtok(ips, ","); while (t) { CS104_RedundancyGroup_addAllowedClient(g, t); t = strtok(NULL, ","); } }
            CS104_Slave_addRedundancyGroup(slave, g);
            if (ngroups < 8) groups[ngroups++] = g;
        }
        else if (!strcmp(cmd, "start")) { if (!slave) make_slave(); CS104_Slave_startThreadless(slave); printf("running %d\n", CS104_Slave_isRunning(slave)); }
        else if (!strcmp(cmd, "stop")) { if (slave) { CS104_Slave_stop(slave); printf("open %d\n", CS104_Slave_getOpenConnections(slave)); } }
        else if (!strcmp(cmd, "destroy")) { if (slave) { CS104_Slave_destroy(slave); slave = NULL; ngroups = 0; } }
        else if (!strcmp(cmd, "connect")) {
            int ci; char peer[64]; sscanf(line, "%*s c%d %63s", &ci, peer);
            if (ci >= 0 && ci < MAXC) { socks[ci] = Sim_newPeer(peer); if (ci >= nsocks) nsocks = ci + 1; peer_ns[ci] = 0; peer_seen[ci] = 0; }
        }
        else if (!strcmp(cmd, "mark")) { char m[32] = ""; sscanf(line, "%*s %31s", m); printf("mark %s\n", m); }   /* echo: lets an oracle cut the trace into phases */
        else if (!strcmp(cmd, "tick")) {
            int n = 1; sscanf(line, "%*s %d", &n);
            for (int i = 0; i < n && slave; i++) CS104_Slave_tick(slave);
            drain();
            for (int i = 0; i < nsocks; i++) if (socks[i] && socks[i]->destroyed == 1) { printf("closed c%d\n", i); socks[i]->destroyed = 2; }
            if (slave) printf("open %d\n", CS104_Slave_getOpenConnections(slave));   /* always the last line of a tick block */
        }
        else if (!strcmp(cmd, "adv")) { long long ms; sscanf(line, "%*s %lld", &ms); Sim_advance((uint64_t) ms); }
        else if (!strcmp(cmd, "rx")) {
            int ci; static char hex[66000]; static uint8_t b[33000]; sscanf(line, "%*s c%d %65999s", &ci, hex);
            if (ci >= 0 && ci < nsocks && socks[ci]) { int n = unhex(hex, b); Sim_feed(socks[ci], b, n); }
        }
        else if (!strcmp(cmd, "rxi") || !strcmp(cmd, "rxs")) {
            /* peer frame with sequence numbers filled in by the harness' peer bookkeeping:
               rxi c<i> <asdu-hex> [dns] [dnr]   I-frame, N(S) = sent so far + dns, N(R) = seen so far + dnr
               rxs c<i> [dnr]                    S-frame, N(R) = seen so far + dnr (dnr <= 0 acknowledges a prefix) */
            int ci = 0, d1 = 0, d2 = 0; static char hex[1024]; static uint8_t f[300]; int n = 0;
            if (!strcmp(cmd, "rxi")) { sscanf(line, "%*s c%d %1023s %d %d", &ci, hex, &d1, &d2); n = unhex(hex, f + 6); }
            else { sscanf(line, "%*s c%d %d", &ci, &d2); }
            if (ci >= 0 && ci < nsocks && socks[ci]) {
                int nr = ((peer_seen[ci] + d2) % 32768 + 32768) % 32768;
                f[0] = 0x68; f[4] = (uint8_t) ((nr % 128) * 2); f[5] = (uint8_t) (nr / 128);
                if (!strcmp(cmd, "rxi")) {
                    int ns = ((peer_ns[ci] + d1) % 32768 + 32768) % 32768;
                    f[1] = (uint8_t) (4 + n); f[2] = (uint8_t) ((ns % 128) * 2); f[3] = (uint8_t) (ns / 128);
                    if (d1 == 0) peer_ns[ci] = (peer_ns[ci] + 1) % 32768;
                    Sim_feed(socks[ci], f, 6 + n);
                }
                else { f[1] = 4; f[2] = 1; f[3] = 0; Sim_feed(socks[ci], f, 6); }
            }
        }
        else if (!strcmp(cmd, "enq")) {
            static char hex[1024]; sscanf(line, "%*s %1023s", hex);
            int n = (int) strlen(hex) / 2; uint8_t* b = malloc(n ? n : 1); unhex(hex, b);
            if (slave) {
                CS101_ASDU a = CS101_ASDU_createFromBuffer(CS104_Slave_getAppLayerParameters(slave), b, n);
                if (a) { CS104_Slave_enqueueASDU(slave, a); CS101_ASDU_destroy(a); }
            }
            free(b);
        }
        else if (!strcmp(cmd, "closeonopen")) { sscanf(line, "%*s %d", &close_on_open); }
        else if (!strcmp(cmd, "sendonact")) { sscanf(line, "%*s %d", &send_on_act); }
        else if (!strcmp(cmd, "peerclose")) { int ci; sscanf(line, "%*s c%d", &ci); if (ci >= 0 && ci < nsocks && socks[ci]) Sim_peerClose(socks[ci]); }
        else if (!strcmp(cmd, "wmode")) { int ci, m; sscanf(line, "%*s c%d %d", &ci, &m); if (ci >= 0 && ci < nsocks && socks[ci]) socks[ci]->writeMode = m; }
        else if (!strcmp(cmd, "appsend")) {
            /* (C07) the application sends a deferred response on the connection handle it kept (outside any handler) */
            int ci; sscanf(line, "%*s c%d", &ci); MasterConnection mc = con_of(ci);
            if (mc) {
                CS101_AppLayerParameters alp = IMasterConnection_getApplicationLayerParameters(&mc->iMasterConnection);
                CS101_ASDU a = CS101_ASDU_create(alp, false, CS101_COT_ACTIVATION_TERMINATION, 0, 1, false, false);
                InformationObject io = (InformationObject) InterrogationCommand_create(NULL, 0, 20);
                CS101_ASDU_addInformationObject(a, io); InformationObject_destroy(io);
                bool r = IMasterConnection_sendASDU(&mc->iMasterConnection, a);
                printf("send c%d deferred ret=%d\n", ci, r);
                CS101_ASDU_destroy(a);
            }
        }
        else if (!strcmp(cmd, "appclose")) { int ci; sscanf(line, "%*s c%d", &ci); MasterConnection mc = con_of(ci); if (mc) IMasterConnection_close(&mc->iMasterConnection); }
        else if (!strcmp(cmd, "poke")) {
            int ci, vs, vr; sscanf(line, "%*s c%d vs=%d vr=%d", &ci, &vs, &vr);
            MasterConnection mc = con_of(ci); if (mc) { mc->sendCount = (uint16_t) vs; mc->receiveCount = (uint16_t) vr; peer_seen[ci] = vs; peer_ns[ci] = vr; }
        }
        else if (!strcmp(cmd, "dump")) { dump(); printf("st end\n"); }
        else if (!strcmp(cmd, "create")) { if (!slave) make_slave(); }
        else if (!strcmp(cmd, "slots")) {
            int u = 0, r = 0, a = 0;
            if (slave) for (int i = 0; i < CONFIG_CS104_MAX_CLIENT_CONNECTIONS; i++) {
                MasterConnection mc = slave->masterConnections[i];
                if (mc && mc->isUsed) { u++; if (mc->isRunning) r++; if (mc->state == M_CON_STATE_STARTED) a++; }
            }
            if (slave) printf("slots used=%d running=%d started=%d\n", u, r, a);
        }
        else if (!strcmp(cmd, "halnull")) { printf("halnull %d\n", hal_null_calls); hal_null_calls = 0; }
        else printf("? %s", line);
        drain();
        fflush(stdout);
    }
    reset_all();
    return 0;
}
