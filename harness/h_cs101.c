/* h_cs101: a REAL CS101_Master and 1..3 REAL CS101_Slave objects on one simulated serial line (balanced:
 * point to point; unbalanced: multi-drop, what the master writes reaches every slave, what a slave
 * writes reaches the master).  The harness only moves whole frames between the simulated ports and
 * decides, from the script, which frames are lost or duplicated; virtual clock.  No library internals
 * are touched (public API only).
 *
 * script (one command per line; several scripts per process separated by `--- <id>`):
 *   cfg mode=bal|unb al=<1|2> sc=<0|1> slaves=<n> q1=<n> q2=<n> mq=<n> tack=<ms> trep=<ms> tls=<ms> idle=<ms> t=<ms> fix=<letters>
 *       slave i (1-based) has link address 10+i (al=2: 0x0100*i+10+i); the balanced master has address 1
 *   lose <k> <k> ...        global indices (1-based, counted over every frame written by any station) of frames to lose
 *   dupf <k> <k> ...        global indices of frames to deliver twice
 *   step m | step s<i>      one CS101_Master_run / CS101_Slave_run
 *   tick <ms>               advance the virtual clock
 *   enq1 s<i> <asdu-hex> | enq2 s<i> <asdu-hex>     slave application queues an ASDU (class 1 / class 2)
 *   msend s<i> <asdu-hex>   master application: isChannelReady (unbalanced) then sendASDU
 *   poll s<i>               CS101_Master_pollSingleSlave
 *   mtest s<i>              CS101_Master_sendLinkLayerTestFunction (towards slave i)
 *   flush s<i>              CS101_Slave_flushQueues
 *   inject m|s<i> <hex>     raw octets appear on that station's receive line
 * trace:
 *   tx m|s<i> <n> <hex> [lost|dup]     frame number n written by that station
 *   mdeliver a=<addr> <asdu-hex|NULL>  master's ASDU received handler
 *   sdeliver s<i> <asdu-hex>           slave's ASDU handler
 *   mls a=<addr> <state> | sls s<i> <state>   link layer state changed callbacks
 *   enq s<i> c=<1|2> full=<0|1>        msend s<i> ok=<0|1> */
#include <stdio.h>
#include <stdlib.h>
#include <string.h>
#include "simhal.h"
#include "cs101_master.h"
#include "cs101_slave.h"
#include "cs101_asdu_internal.h"
#include "buffer_frame.h"
#include "lib60870_internal.h"

static int hexval(char c) { return c <= '9' ? c - '0' : (c | 32) - 'a' + 10; }
static int unhex(const char* s, uint8_t* out) { if (!strcmp(s, "-")) return 0; int n = (int) strlen(s) / 2; for (int i = 0; i < n; i++) out[i] = (uint8_t) (hexval(s[2 * i]) * 16 + hexval(s[2 * i + 1])); return n; }
static void puthex(const uint8_t* b, int n) { if (n <= 0) printf("-"); for (int i = 0; i < n; i++) printf("%02x", b[i]); }

#define MAXS 3
static CS101_Master master; static CS101_Slave slaves[MAXS]; static int nslaves;
static SerialPort mport, sport[MAXS];
static struct sLinkLayerParameters llp;
static int balanced;
static long frameNo;
static char loseSet[100000], dupSet[100000];
static int loseNext[MAXS + 1];
static int slaveAddr(int i) { return llp.addressLength == 2 ? 0x100 * (i + 1) + 11 + i : 11 + i; }

/* frames written by the station that is currently being stepped */
typedef struct { uint8_t d[300]; int n; } Fr;
static Fr pend[64]; static int npend;
static void on_raw(void* p, uint8_t* msg, int size, bool sent) { (void) p; if (sent && npend < 64) { memcpy(pend[npend].d, msg, size); pend[npend].n = size; npend++; } }

static void flush_frames(int who /* -1 master, else slave index */)
{
    for (int f = 0; f < npend; f++) {
        frameNo++;
        int lost = frameNo < (long) sizeof loseSet && loseSet[frameNo];
        /* `losenext m|s<i>`: the next variable-length frame carrying user data from the primary function of that station (FC 3, PRM = 1) is lost once */
        if (!lost && loseNext[who + 1] && pend[f].n > 6 && pend[f].d[0] == 0x68 && (pend[f].d[4] & 0x4f) == 0x43) { lost = 1; loseNext[who + 1] = 0; }
        int dup = frameNo < (long) sizeof dupSet && dupSet[frameNo];
        if (who < 0) printf("tx m %ld ", frameNo); else printf("tx s%d %ld ", who + 1, frameNo);
        puthex(pend[f].d, pend[f].n);
        printf(lost ? " lost\n" : dup ? " dup\n" : "\n");
        if (lost) continue;
        for (int rep = 0; rep < (dup ? 2 : 1); rep++) {
            if (who < 0) for (int i = 0; i < nslaves; i++) Sim_serialFeed(sport[i], pend[f].d, pend[f].n);
            else Sim_serialFeed(mport, pend[f].d, pend[f].n);
        }
    }
    npend = 0;
}

static bool m_asdu(void* p, int addr, CS101_ASDU asdu)
{
    (void) p;
    printf("mdeliver a=%d ", addr);
    if (asdu == NULL) printf("NULL\n");
    else { struct sBufferFrame f; uint8_t b[300]; BufferFrame_initialize(&f, b, 0); CS101_ASDU_encode(asdu, (Frame) &f); puthex(b, f.msgSize); printf("\n"); }
    return true;
}
static bool s_asdu(void* p, IMasterConnection con, CS101_ASDU asdu)
{
    (void) con;
    int i = (int) (intptr_t) p;
    struct sBufferFrame f; uint8_t b[300]; BufferFrame_initialize(&f, b, 0); CS101_ASDU_encode(asdu, (Frame) &f);
    printf("sdeliver s%d ", i + 1); puthex(b, f.msgSize); printf("\n");
    return true;
}
static void m_ls(void* p, int a, LinkLayerState s) { (void) p; printf("mls a=%d %d\n", a, (int) s); }
static void s_ls(void* p, int a, LinkLayerState s) { (void) a; printf("sls s%d %d\n", (int) (intptr_t) p + 1, (int) s); }

static void destroy_all(void)
{
    if (master) { CS101_Master_destroy(master); master = NULL; }
    for (int i = 0; i < MAXS; i++) { if (slaves[i]) { CS101_Slave_destroy(slaves[i]); slaves[i] = NULL; } if (sport[i]) { SerialPort_destroy(sport[i]); sport[i] = NULL; } }
    if (mport) { SerialPort_destroy(mport); mport = NULL; }
    nslaves = 0; frameNo = 0; npend = 0; memset(loseSet, 0, sizeof loseSet); memset(dupSet, 0, sizeof dupSet); memset(loseNext, 0, sizeof loseNext);
}

static int kv(const char* line, const char* key, int dflt)
{
    char pat[40]; snprintf(pat, sizeof pat, " %s=", key);
    const char* p = strstr(line, pat);
    return p ? atoi(p + strlen(pat)) : dflt;
}

static void do_cfg(const char* line)
{
    destroy_all();
    balanced = strstr(line, " mode=bal") != NULL;
    llp.addressLength = kv(line, "al", 1); llp.useSingleCharACK = kv(line, "sc", 0) != 0;
    llp.timeoutForAck = kv(line, "tack", 200); llp.timeoutRepeat = kv(line, "trep", 1000); llp.timeoutLinkState = kv(line, "tls", 5000);
    nslaves = balanced ? 1 : kv(line, "slaves", 1);
    if (nslaves > MAXS) nslaves = MAXS;
    Sim_setTime((uint64_t) kv(line, "t", 1000));
    IEC60870_LinkLayerMode mode = balanced ? IEC60870_LINK_LAYER_BALANCED : IEC60870_LINK_LAYER_UNBALANCED;
    mport = SerialPort_create("m", 9600, 8, 'E', 1);
    master = CS101_Master_createEx(mport, &llp, NULL, mode, kv(line, "mq", 10));
    CS101_Master_setASDUReceivedHandler(master, m_asdu, NULL);
    CS101_Master_setLinkLayerStateChanged(master, m_ls, NULL);
    CS101_Master_setRawMessageHandler(master, on_raw, NULL);
    if (balanced) { CS101_Master_setOwnAddress(master, 1); CS101_Master_useSlaveAddress(master, slaveAddr(0)); CS101_Master_setIdleTimeout(master, kv(line, "idle", 100000)); }
    for (int i = 0; i < nslaves; i++) {
        sport[i] = SerialPort_create("s", 9600, 8, 'E', 1);
        slaves[i] = CS101_Slave_createEx(sport[i], &llp, NULL, mode, kv(line, "q1", 10), kv(line, "q2", 10));
        CS101_Slave_setLinkLayerAddress(slaves[i], slaveAddr(i));
        if (balanced) { CS101_Slave_setLinkLayerAddressOtherStation(slaves[i], 1); CS101_Slave_setIdleTimeout(slaves[i], kv(line, "idle", 100000)); }
        else { CS101_Master_addSlave(master, slaveAddr(i)); CS101_Slave_setIdleTimeout(slaves[i], kv(line, "idle", 100000)); }
        CS101_Slave_setASDUHandler(slaves[i], s_asdu, (void*) (intptr_t) i);
        CS101_Slave_setLinkLayerStateChanged(slaves[i], s_ls, (void*) (intptr_t) i);
        CS101_Slave_setRawMessageHandler(slaves[i], on_raw, NULL);
    }
}

static int station(const char* tok) { if (tok[0] == 'm') return -1; int i = atoi(tok + 1) - 1; return (i >= 0 && i < nslaves) ? i : -2; }

int main(void)
{
    static char line[200000]; static uint8_t b[2048]; char cmd[32], a1[64]; static char a2[4096];
    setvbuf(stdout, NULL, _IOFBF, 1 << 16);
    while (fgets(line, sizeof line, stdin)) {
        if (sscanf(line, "%31s", cmd) != 1) continue;
        if (!strcmp(cmd, "---")) { fputs(line, stdout); fflush(stdout); continue; }
        if (!strcmp(cmd, "cfg")) { do_cfg(line); continue; }
        if (!master) { printf("? no line\n"); continue; }
        if (!strcmp(cmd, "lose") || !strcmp(cmd, "dupf")) {
            char* set = cmd[0] == 'l' ? loseSet : dupSet; char* t = strtok(line, " \n");
            while ((t = strtok(NULL, " \n"))) { long k = atol(t); if (k > 0 && k < (long) sizeof loseSet) set[k] = 1; }
            continue;
        }
        a1[0] = a2[0] = 0; sscanf(line, "%*s %63s %4095s", a1, a2);
        if (!strcmp(cmd, "tick")) { Sim_advance((uint64_t) atoi(a1)); continue; }
        int st = station(a1);
        if (st == -2) { printf("? %s", line); continue; }
        if (!strcmp(cmd, "step")) {
            if (st < 0) CS101_Master_run(master); else CS101_Slave_run(slaves[st]);
            flush_frames(st);
        }
        else if ((!strcmp(cmd, "enq1") || !strcmp(cmd, "enq2")) && st >= 0) {
            int n = unhex(a2, b); struct sCS101_ASDU _a;
            CS101_ASDU a = CS101_ASDU_createFromBufferEx(&_a, CS101_Slave_getAppLayerParameters(slaves[st]), b, n);
            if (!a) { printf("? bad asdu\n"); continue; }
            int c1 = cmd[3] == '1';
            printf("enq s%d c=%d full=%d\n", st + 1, c1 ? 1 : 2, c1 ? CS101_Slave_isClass1QueueFull(slaves[st]) : CS101_Slave_isClass2QueueFull(slaves[st]));
            if (c1) CS101_Slave_enqueueUserDataClass1(slaves[st], a); else CS101_Slave_enqueueUserDataClass2(slaves[st], a);
        }
        else if (!strcmp(cmd, "msend") && st >= 0) {
            int n = unhex(a2, b); struct sCS101_ASDU _a;
            CS101_ASDU a = CS101_ASDU_createFromBufferEx(&_a, CS101_Master_getAppLayerParameters(master), b, n);
            if (!a) { printf("? bad asdu\n"); continue; }
            int ok = 1;
            CS101_Master_useSlaveAddress(master, slaveAddr(st));
            if (!balanced) ok = CS101_Master_isChannelReady(master, slaveAddr(st));
            if (ok) CS101_Master_sendASDU(master, a);
            printf("msend s%d ok=%d\n", st + 1, ok);
        }
        else if (!strcmp(cmd, "poll") && st >= 0) CS101_Master_pollSingleSlave(master, slaveAddr(st));
        else if (!strcmp(cmd, "flush") && st >= 0) CS101_Slave_flushQueues(slaves[st]);
        else if (!strcmp(cmd, "losenext")) loseNext[st + 1] = 1;
        else if (!strcmp(cmd, "mtest") && st >= 0) { CS101_Master_useSlaveAddress(master, slaveAddr(st)); CS101_Master_sendLinkLayerTestFunction(master); }
        else if (!strcmp(cmd, "inject")) { int n = unhex(a2, b); Sim_serialFeed(st < 0 ? mport : sport[st], b, n); }
        else printf("? %s", line);
    }
    destroy_all();
    return 0;
}
