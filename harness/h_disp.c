/* h_disp: command dispatch (C09).  One source, four white-box builds:
 *   -DROLE_S104 : #include cs104_slave.c       -> static handleASDU(MasterConnection, CS101_ASDU)
 *   -DROLE_S101 : #include cs101_slave.c       -> static handleASDU(CS101_Slave, CS101_ASDU)
 *   -DROLE_C104 : #include cs104_connection.c  -> CS104_Connection_send*Command builders
 *   -DROLE_M101 : #include cs101_master.c      -> CS101_Master_send*Command builders
 * Everything that decides is the library's code; the harness only sets up a stub connection on the
 * simulated HAL (CS104: connection in state STARTED, responses read back from the simulated socket as
 * I-frames; CS101: responses read back from the slave's class-1 queue), registers handlers and prints.
 *
 * script (slave roles):
 *   cfg cot=<1|2> ca=<1|2> ioa=<1|2|3>
 *   asdu <hex> h=<mask> r=<mask>      mask bits: 1 interrogation 2 counter 4 read 8 clock 16 reset 32 delay 64 asdu
 *                                     h = registered handlers, r = handlers that return true
 *   sweep types=<lo>-<hi> [stride=<n>]  native exhaustive enumeration with the C oracle (thorough tier)
 * trace:  cb <name> <param>=<v> asdu=<hex> | tx <asdu-hex> | ret <0|1|->       (one `ret` per asdu line)
 * script (builder roles):
 *   cfg cot= ca= ioa= oa=
 *   build ic cot=<n> ca=<n> q=<n> | build ci cot= ca= q= | build rd ca= ioa= | build cs ca= t=<hex7>
 *   build ts ca= | build tsta ca= tsc= t=<hex7> | build rp cot= ca= q= | build cd cot= ca= d=<ms>
 * trace:  built <asdu-hex> ret=<0|1> | dec type= vsq= cot= pn= t= oa= ca= ioa= val=<hex>   (library's own parser) */
#include <stdio.h>
#include <stdint.h>
#include <stdlib.h>
#include <string.h>
#include "simhal.h"
#if defined(ROLE_S104)
#include "cs104_slave.c"
#elif defined(ROLE_S101)
#include "cs101_slave.c"
#elif defined(ROLE_C104)
#include "cs104_connection.c"
#elif defined(ROLE_M101)
#include "hal_serial.h"
#include "cs101_master.c"
#else
#error "define a ROLE_"
#endif

static int hexval(char c) { return c <= '9' ? c - '0' : (c | 32) - 'a' + 10; }
static int unhex(const char* s, uint8_t* out) { if (!strcmp(s, "-")) return 0; int n = (int) strlen(s) / 2; for (int i = 0; i < n; i++) out[i] = (uint8_t) (hexval(s[2 * i]) * 16 + hexval(s[2 * i + 1])); return n; }
static void puthex(const uint8_t* b, int n) { if (n <= 0) printf("-"); for (int i = 0; i < n; i++) printf("%02x", b[i]); }
static int kv(const char* line, const char* key, int dflt)
{
    char pat[40]; snprintf(pat, sizeof pat, " %s=", key);
    const char* p = strstr(line, pat);
    return p ? atoi(p + strlen(pat)) : dflt;
}
static int kvhex(const char* line, const char* key, uint8_t* out)
{
    char pat[40], buf[600]; snprintf(pat, sizeof pat, " %s=", key);
    const char* p = strstr(line, pat);
    if (!p || sscanf(p + strlen(pat), "%599s", buf) != 1) return 0;
    return unhex(buf, out);
}

static int cfg_cot = 2, cfg_ca = 2, cfg_ioa = 3, cfg_oa = 0;

/* ===================================================================== slave roles */
#if defined(ROLE_S104) || defined(ROLE_S101)

static int hmask = 0, rmask = 0;
static int quiet = 0;                 /* sweep mode: record instead of print */
/* record of the last dispatch (sweep oracle) */
#define MAXREC 8
static struct { int ncb; int cb_kind[MAXREC]; long cb_val[MAXREC]; uint8_t cb_asdu[MAXREC][64]; int cb_len[MAXREC];
                int ntx; uint8_t tx[MAXREC][64]; int tx_len[MAXREC]; } rec;

static void rec_cb(int kind, long val, CS101_ASDU asdu)
{
    if (rec.ncb < MAXREC) {
        int n = asdu->asduHeaderLength + asdu->payloadSize; if (n > 64) n = 64;
        rec.cb_kind[rec.ncb] = kind; rec.cb_val[rec.ncb] = val; memcpy(rec.cb_asdu[rec.ncb], asdu->asdu, n); rec.cb_len[rec.ncb] = n;
    }
    rec.ncb++;
}
static void pr_asdu(CS101_ASDU asdu) { printf(" asdu="); puthex(asdu->asdu, asdu->asduHeaderLength + asdu->payloadSize); printf("\n"); }

/* every handler is registered with its own tag as the user parameter; a handler that is handed another one reports an extra call */
#define CHKP(K) do { if ((long) (intptr_t) p != (K)) { rec_cb(0x100 | (K), (long) (intptr_t) p, asdu); if (!quiet) { printf("cb wrongparam got=%ld", (long) (intptr_t) p); pr_asdu(asdu); } } } while (0)
static bool h_interrogation(void* p, IMasterConnection c, CS101_ASDU asdu, uint8_t qoi)
{ CHKP(1); rec_cb(1, qoi, asdu); if (!quiet) { printf("cb interrogation qoi=%d", qoi); pr_asdu(asdu); } return (rmask & 1) != 0; }
static bool h_counter(void* p, IMasterConnection c, CS101_ASDU asdu, QualifierOfCIC qcc)
{ CHKP(2); rec_cb(2, qcc, asdu); if (!quiet) { printf("cb counter qcc=%d", qcc); pr_asdu(asdu); } return (rmask & 2) != 0; }
static bool h_read(void* p, IMasterConnection c, CS101_ASDU asdu, int ioa)
{ CHKP(4); rec_cb(4, ioa, asdu); if (!quiet) { printf("cb read ioa=%d", ioa); pr_asdu(asdu); } return (rmask & 4) != 0; }
static bool h_clock(void* p, IMasterConnection c, CS101_ASDU asdu, CP56Time2a t)
{
    CHKP(8);
    long v = 0; for (int i = 0; i < 7; i++) v = v * 131 + t->encodedValue[i];
    rec_cb(8, v, asdu);
    if (!quiet) { printf("cb clock time="); puthex(t->encodedValue, 7); pr_asdu(asdu); }
    return (rmask & 8) != 0;
}
static bool h_reset(void* p, IMasterConnection c, CS101_ASDU asdu, uint8_t qrp)
{ CHKP(16); rec_cb(16, qrp, asdu); if (!quiet) { printf("cb reset qrp=%d", qrp); pr_asdu(asdu); } return (rmask & 16) != 0; }
static bool h_delay(void* p, IMasterConnection c, CS101_ASDU asdu, CP16Time2a d)
{ CHKP(32); rec_cb(32, CP16Time2a_getEplapsedTimeInMs(d), asdu); if (!quiet) { printf("cb delay delay=%d", CP16Time2a_getEplapsedTimeInMs(d)); pr_asdu(asdu); } return (rmask & 32) != 0; }
static bool h_asdu(void* p, IMasterConnection c, CS101_ASDU asdu)
{ CHKP(64); rec_cb(64, 0, asdu); if (!quiet) { printf("cb asdu"); pr_asdu(asdu); } return (rmask & 64) != 0; }

static struct sCS101_AppLayerParameters* alp_ptr(void);

#ifdef ROLE_S104
static CS104_Slave slave = NULL;
static MasterConnection con = NULL;
static Socket sock = NULL;
static struct sCS101_AppLayerParameters* alp_ptr(void) { return &slave->alParameters; }
static void setup(void)
{
    if (slave) return;
    slave = CS104_Slave_create(4, 4);
    con = slave->masterConnections[0];
    sock = Sim_newPeer("1.2.3.4:5");
    slave->asduQueue = MessageQueue_create(4); slave->connectionAsduQueue = HighPriorityASDUQueue_create(4);
    con->isUsed = 1;
    MasterConnection_init(con, sock, slave->asduQueue, slave->connectionAsduQueue);
    con->isRunning = 1;
}
static void set_handlers(void)
{
    slave->interrogationHandler = (hmask & 1) ? h_interrogation : NULL;
    slave->counterInterrogationHandler = (hmask & 2) ? h_counter : NULL;
    slave->readHandler = (hmask & 4) ? h_read : NULL;
    slave->clockSyncHandler = (hmask & 8) ? h_clock : NULL;
    slave->resetProcessHandler = (hmask & 16) ? h_reset : NULL;          /* cs104_slave.c defines no setter for these two */
    slave->delayAcquisitionHandler = (hmask & 32) ? h_delay : NULL;
    slave->asduHandler = (hmask & 64) ? h_asdu : NULL;
    slave->interrogationHandlerParameter = (void*) (intptr_t) 1; slave->counterInterrogationHandlerParameter = (void*) (intptr_t) 2;
    slave->readHandlerParameter = (void*) (intptr_t) 4; slave->clockSyncHandlerParameter = (void*) (intptr_t) 8;
    slave->resetProcessHandlerParameter = (void*) (intptr_t) 16; slave->delayAcquisitionHandlerParameter = (void*) (intptr_t) 32;
    slave->asduHandlerParameter = (void*) (intptr_t) 64;
}
/* returns handleASDU's result; responses are taken from the socket (I-frames -> ASDUs) */
static int dispatch(uint8_t* buf, int n)
{
    struct sCS101_ASDU _a;
    con->state = M_CON_STATE_STARTED; con->oldestSentASDU = -1; con->newestSentASDU = -1; con->sendCount = 0; con->receiveCount = 0;
    con->isRunning = 1;
    CS101_ASDU a = CS101_ASDU_createFromBufferEx(&_a, &slave->alParameters, buf, n);
    if (!a) return -2;
    bool r = handleASDU(con, a);
    static uint8_t tx[8192];
    int m = Sim_takeTx(sock, tx, sizeof tx), pos = 0;
    while (pos + 6 <= m && tx[pos] == 0x68 && pos + 2 + tx[pos + 1] <= m) {
        int l = tx[pos + 1] - 4;
        if (rec.ntx < MAXREC) { int c = l > 64 ? 64 : l; memcpy(rec.tx[rec.ntx], tx + pos + 6, c); rec.tx_len[rec.ntx] = c; }
        rec.ntx++;
        if (!quiet) { printf("tx "); puthex(tx + pos + 6, l); printf("\n"); }
        pos += 2 + tx[pos + 1];
    }
    return r ? 1 : 0;
}
#else
static CS101_Slave slave = NULL;
static SerialPort port = NULL;
static struct sCS101_AppLayerParameters* alp_ptr(void) { return &slave->alParameters; }
static void setup(void)
{
    if (slave) return;
    port = SerialPort_create("sim", 9600, 8, 'E', 1);
    slave = CS101_Slave_create(port, NULL, NULL, IEC60870_LINK_LAYER_UNBALANCED);
}
static void set_handlers(void)
{
    CS101_Slave_setInterrogationHandler(slave, (hmask & 1) ? h_interrogation : NULL, (void*) (intptr_t) 1);
    CS101_Slave_setCounterInterrogationHandler(slave, (hmask & 2) ? h_counter : NULL, (void*) (intptr_t) 2);
    CS101_Slave_setReadHandler(slave, (hmask & 4) ? h_read : NULL, (void*) (intptr_t) 4);
    CS101_Slave_setClockSyncHandler(slave, (hmask & 8) ? h_clock : NULL, (void*) (intptr_t) 8);
    CS101_Slave_setResetProcessHandler(slave, (hmask & 16) ? h_reset : NULL, (void*) (intptr_t) 16);
    CS101_Slave_setDelayAcquisitionHandler(slave, (hmask & 32) ? h_delay : NULL, (void*) (intptr_t) 32);
    CS101_Slave_setASDUHandler(slave, (hmask & 64) ? h_asdu : NULL, (void*) (intptr_t) 64);
}
static int dispatch(uint8_t* buf, int n)
{
    struct sCS101_ASDU _a;
    CS101_Queue_flush(&slave->userDataClass1Queue);
    CS101_ASDU a = CS101_ASDU_createFromBufferEx(&_a, &slave->alParameters, buf, n);
    if (!a) return -2;
    handleASDU(slave, a);
    for (;;) {
        struct sBufferFrame bf; uint8_t fb[300];
        Frame f = BufferFrame_initialize(&bf, fb, 0);
        CS101_Queue_lock(&slave->userDataClass1Queue);
        Frame got = CS101_Queue_dequeue(&slave->userDataClass1Queue, f);
        CS101_Queue_unlock(&slave->userDataClass1Queue);
        if (!got) break;
        int l = Frame_getMsgSize(f);
        if (rec.ntx < MAXREC) { int c = l > 64 ? 64 : l; memcpy(rec.tx[rec.ntx], fb, c); rec.tx_len[rec.ntx] = c; }
        rec.ntx++;
        if (!quiet) { printf("tx "); puthex(fb, l); printf("\n"); }
    }
    return -1;
}
#endif

/* ---- native exhaustive sweep with the decision table of the property written again in C (thorough tier).
 * Reports only the classes that fail, with one example each, and the number of cases. */
static const int sys_types[] = {100, 101, 102, 103, 104, 105, 106, 107};
static int body_of(int t) { switch (t) { case 100: case 101: case 105: return 1; case 102: return 0; case 103: return 7; case 104: case 106: return 2; case 107: return 9; } return -1; }
static int bit_of(int t) { switch (t) { case 100: return 1; case 101: return 2; case 102: return 4; case 103: return 8; case 105: return 16; case 106: return 32; } return 0; }
static int cot_ok(int t, int c)
{
    switch (t) { case 100: case 101: return c == 6 || c == 8; case 102: return c == 5; case 106: return c == 6 || c == 3; default: return c == 6; }
}
static int is_sys(int t)
{
#ifdef ROLE_S104
    return (t >= 100 && t <= 107 && t != 104);
#else
    return (t >= 100 && t <= 106);
#endif
}
static int is_internal(int t)
{
#ifdef ROLE_S104
    return t == 107;
#else
    return t == 104;
#endif
}
static long long sw_cases = 0, sw_bad = 0;
static char sw_seen[64][48]; static int sw_nseen = 0;
static void sw_fail(const char* cls, const uint8_t* req, int n)
{
    sw_bad++;
    for (int i = 0; i < sw_nseen; i++) if (!strcmp(sw_seen[i], cls)) return;
    if (sw_nseen < 64) snprintf(sw_seen[sw_nseen++], 48, "%s", cls);
    printf("swbad %s asdu=", cls); puthex(req, n); printf(" h=%d r=%d\n", hmask, rmask);
}
static int is_mirror(const uint8_t* req, int n, int k, int cause)
{
    if (rec.tx_len[k] != n) return 0;
    for (int i = 0; i < n; i++) {
        uint8_t e = req[i]; if (i == 2) e = (uint8_t) ((req[2] & 0x80) | 0x40 | cause);
        if (rec.tx[k][i] != e) return 0;
    }
    return 1;
}
static void sweep_one(const uint8_t* req, int n, int complete, int ioa_zero)
{
    uint8_t* buf = malloc(n ? n : 1); memcpy(buf, req, n);
    memset(&rec, 0, sizeof rec);
    int r = dispatch(buf, n);
    free(buf);
    sw_cases++;
    int t = req[0], cot = req[2] & 0x3f;
    int spec_bit = bit_of(t);
    int nspec = 0, nother = 0, ngen = 0;
    for (int i = 0; i < rec.ncb && i < MAXREC; i++) { if (rec.cb_kind[i] == 64) ngen++; else if (rec.cb_kind[i] == spec_bit) nspec++; else nother++; }
    int nneg = 0; for (int i = 0; i < rec.ntx && i < MAXREC; i++) { int c = rec.tx[i][2] & 0x3f; if ((rec.tx[i][2] & 0x40) && (c == 44 || c == 45 || c == 47)) nneg++; }
    if (nother) { sw_fail("foreign-callback", req, n); return; }
    if (rec.ntx > 1) { sw_fail("two-responses", req, n); return; }
    int generic_path = 0;
    if (!is_sys(t)) generic_path = 1;
    else if (!cot_ok(t, cot)) { if (!(rec.ncb == 0 && rec.ntx == 1 && is_mirror(req, n, 0, 45))) sw_fail("cot45", req, n); return; }
    else if (!is_internal(t) && !(hmask & spec_bit)) generic_path = 1;
    else if (!complete) { if (nspec) sw_fail("truncated-callback", req, n); return; }
#ifdef ROLE_S104
    else if (t != 102 && !ioa_zero) { if (!(rec.ncb == 0 && rec.ntx == 1 && is_mirror(req, n, 0, 47))) sw_fail("ioa47", req, n); return; }
#endif
    else if (is_internal(t)) { if (!(rec.ncb == 0 && rec.ntx == 1 && nneg == 0 && (rec.tx[0][2] & 0x3f) == 7)) sw_fail("test-confirm", req, n); return; }
    else {
        if (nspec != 1) { sw_fail("callback-count", req, n); return; }
        if (rmask & spec_bit) { if (nneg || ngen) sw_fail("accepted-but-negative", req, n); return; }
        if (t == 103 && rec.ntx == 1 && (rec.tx[0][2] & 0x7f) == (0x40 | 7) && ngen == 0) return;    /* negative activation confirmation */
        generic_path = 1;
    }
    if (generic_path) {
        if (nspec && !(is_sys(t) && (hmask & spec_bit))) { sw_fail("callback-unexpected", req, n); return; }
        int want_gen = (hmask & 64) ? 1 : 0;
        if (ngen != want_gen) { sw_fail("generic-count", req, n); return; }
        if (want_gen && (rmask & 64)) { if (rec.ntx) sw_fail("generic-accepted-but-response", req, n); return; }
        if (!(rec.ntx == 1 && is_mirror(req, n, 0, 44))) sw_fail("type44", req, n);
    }
    (void) r;
}
static void sweep(int lo, int hi, int stride)
{
    quiet = 1; sw_cases = 0; sw_bad = 0; sw_nseen = 0;
    int hdr = 2 + cfg_cot + cfg_ca;
    static const int hsets[][2] = { {0, 0}, {63, 0}, {63, 63}, {64, 0}, {64, 64}, {127, 0}, {127, 63}, {127, 64}, {127, 127} };
    long long idx = 0;
    for (int t = lo; t <= hi; t++) {
        int body = body_of(t); int full = cfg_ioa + (body < 0 ? 2 : body);
        for (int cot = 0; cot < 64; cot++) for (int pn = 0; pn < 2; pn++) for (int tb = 0; tb < 2; tb++)
        for (int iz = 0; iz < 2; iz++) for (int len = 0; len <= full; len++) for (int hs = 0; hs < 9; hs++) {
            if (stride > 1 && (idx++ % stride) != 0) continue;
            uint8_t req[64]; int n = 0;
            req[n++] = (uint8_t) t; req[n++] = 1; req[n++] = (uint8_t) (cot | pn << 6 | tb << 7);
            if (cfg_cot == 2) req[n++] = 0x11;
            req[n++] = 0x22; if (cfg_ca == 2) req[n++] = 0x33;
            uint8_t pl[16]; memset(pl, 0, sizeof pl);
            if (!iz) pl[cfg_ioa - 1] = 0x01;
            for (int i = cfg_ioa; i < 16; i++) pl[i] = (uint8_t) (0xa0 + i);
            memcpy(req + n, pl, len); n += len;
            hmask = hsets[hs][0]; rmask = hsets[hs][1]; set_handlers();
            int complete = (body < 0) ? 1 : (len >= cfg_ioa + body);
            int ioa_zero = iz || len < cfg_ioa;
            if (len < cfg_ioa) { /* the IOA itself is cut: only "truncated" clauses apply */ ioa_zero = 1; }
            sweep_one(req, n, complete, ioa_zero);
        }
    }
    quiet = 0;
    printf("swdone types=%d-%d cases=%lld bad=%lld classes=%d\n", lo, hi, sw_cases, sw_bad, sw_nseen);
    (void) hdr;
}

int main(void)
{
    static char line[4096]; static uint8_t b[2048];
    setvbuf(stdout, NULL, _IOFBF, 1 << 16);
    setup();
    while (fgets(line, sizeof line, stdin)) {
        char cmd[32], a1[2048];
        if (sscanf(line, "%31s", cmd) != 1) continue;
        if (!strcmp(cmd, "---")) { cfg_cot = 2; cfg_ca = 2; cfg_ioa = 3; fputs(line, stdout); fflush(stdout); }
        else if (!strcmp(cmd, "cfg")) { cfg_cot = kv(line, "cot", cfg_cot); cfg_ca = kv(line, "ca", cfg_ca); cfg_ioa = kv(line, "ioa", cfg_ioa); }
        else if (!strcmp(cmd, "asdu")) {
            if (sscanf(line, "%*s %2047s", a1) != 1) continue;
            int n = unhex(a1, b);
            hmask = kv(line, "h", 0); rmask = kv(line, "r", 0);
            struct sCS101_AppLayerParameters* al = alp_ptr();
            al->sizeOfCOT = cfg_cot; al->sizeOfCA = cfg_ca; al->sizeOfIOA = cfg_ioa;
            set_handlers();
            uint8_t* exact = malloc(n ? n : 1); memcpy(exact, b, n);      /* exact-size block: over-reads are seen by ASan */
            memset(&rec, 0, sizeof rec);
            int r = dispatch(exact, n);
            free(exact);
            if (r == -2) printf("ret short\n"); else if (r == -1) printf("ret -\n"); else printf("ret %d\n", r);
        }
        else if (!strcmp(cmd, "sweep")) {
            int lo = 0, hi = 255, stride = 1; const char* p = strstr(line, "types="); if (p) sscanf(p, "types=%d-%d", &lo, &hi);
            stride = kv(line, "stride", 1);
            struct sCS101_AppLayerParameters* al = alp_ptr();
            al->sizeOfCOT = cfg_cot; al->sizeOfCA = cfg_ca; al->sizeOfIOA = cfg_ioa;
            sweep(lo, hi, stride);
        }
        else printf("? %s", line);
        fflush(stdout);
    }
    return 0;
}

/* ===================================================================== builder roles */
#else

#ifdef ROLE_C104
static CS104_Connection con = NULL; static Socket sock = NULL;
static struct sCS101_AppLayerParameters* alp_ptr(void) { return &con->alParameters; }
static void setup(void)
{
    con = CS104_Connection_create("peer", 2404);
    resetConnection(con);
    sock = TcpSocket_create();
    con->socket = sock;
}
static int take_built(uint8_t* out)
{
    static uint8_t tx[8192];
    int m = Sim_takeTx(sock, tx, sizeof tx);
    if (m < 6 || tx[0] != 0x68) return -1;
    int l = tx[1] - 4; memcpy(out, tx + 6, l); return l;
}
static void pre(void) { con->running = true; con->oldestSentASDU = -1; con->newestSentASDU = -1; con->sendCount = 0; }
#else
static CS101_Master master = NULL; static SerialPort port = NULL;
static struct sCS101_AppLayerParameters* alp_ptr(void) { return &master->alParameters; }
static void setup(void)
{
    port = SerialPort_create("sim", 9600, 8, 'E', 1);
    master = CS101_Master_create(port, NULL, NULL, IEC60870_LINK_LAYER_BALANCED);
}
static int take_built(uint8_t* out)
{
    struct sBufferFrame bf; uint8_t fb[300];
    Frame f = BufferFrame_initialize(&bf, fb, 0);
    CS101_Queue_lock(&master->userDataQueue);
    Frame got = CS101_Queue_dequeue(&master->userDataQueue, f);
    CS101_Queue_unlock(&master->userDataQueue);
    if (!got) return -1;
    int l = Frame_getMsgSize(f); memcpy(out, fb, l); return l;
}
static void pre(void) { CS101_Queue_flush(&master->userDataQueue); }
#endif

static void decode(uint8_t* a, int n)
{
    struct sCS101_AppLayerParameters* al = alp_ptr();
    CS101_ASDU asdu = CS101_ASDU_createFromBuffer(al, a, n);
    if (!asdu) { printf("dec none\n"); return; }
    printf("dec type=%d vsq=%d cot=%d pn=%d t=%d oa=%d ca=%d", CS101_ASDU_getTypeID(asdu), a[1], CS101_ASDU_getCOT(asdu), CS101_ASDU_isNegative(asdu),
           CS101_ASDU_isTest(asdu), CS101_ASDU_getOA(asdu), CS101_ASDU_getCA(asdu));
    InformationObject io = CS101_ASDU_getElement(asdu, 0);
    if (!io) { printf(" io=none\n"); CS101_ASDU_destroy(asdu); return; }
    printf(" ioa=%d val=", InformationObject_getObjectAddress(io));
    uint8_t v[16]; int vn = 0;
    switch (CS101_ASDU_getTypeID(asdu)) {
    case C_IC_NA_1: v[vn++] = InterrogationCommand_getQOI((InterrogationCommand) io); break;
    case C_CI_NA_1: v[vn++] = CounterInterrogationCommand_getQCC((CounterInterrogationCommand) io); break;
    case C_RD_NA_1: break;
    case C_CS_NA_1: memcpy(v, ClockSynchronizationCommand_getTime((ClockSynchronizationCommand) io)->encodedValue, 7); vn = 7; break;
    case C_TS_NA_1: v[vn++] = ((TestCommand) io)->byte1; v[vn++] = ((TestCommand) io)->byte2; break;
    case C_RP_NA_1: v[vn++] = ResetProcessCommand_getQRP((ResetProcessCommand) io); break;
    case C_CD_NA_1: { int d = CP16Time2a_getEplapsedTimeInMs(DelayAcquisitionCommand_getDelay((DelayAcquisitionCommand) io)); v[vn++] = d & 255; v[vn++] = d >> 8; break; }
    case C_TS_TA_1: { int c = TestCommandWithCP56Time2a_getCounter((TestCommandWithCP56Time2a) io); v[vn++] = c & 255; v[vn++] = c >> 8;
                      memcpy(v + 2, TestCommandWithCP56Time2a_getTimestamp((TestCommandWithCP56Time2a) io)->encodedValue, 7); vn = 9; break; }
    default: break;
    }
    puthex(v, vn); printf("\n");
    InformationObject_destroy(io);
    CS101_ASDU_destroy(asdu);
}

int main(void)
{
    static char line[4096];
    setvbuf(stdout, NULL, _IOFBF, 1 << 16);
    setup();
    while (fgets(line, sizeof line, stdin)) {
        char cmd[32], what[32];
        if (sscanf(line, "%31s", cmd) != 1) continue;
        if (!strcmp(cmd, "---")) { cfg_cot = 2; cfg_ca = 2; cfg_ioa = 3; cfg_oa = 0; fputs(line, stdout); fflush(stdout); }
        else if (!strcmp(cmd, "cfg")) { cfg_cot = kv(line, "cot", cfg_cot); cfg_ca = kv(line, "ca", cfg_ca); cfg_ioa = kv(line, "ioa", cfg_ioa); cfg_oa = kv(line, "oa", cfg_oa); }
        else if (!strcmp(cmd, "build")) {
            if (sscanf(line, "%*s %31s", what) != 1) continue;
            struct sCS101_AppLayerParameters* al = alp_ptr();
            al->sizeOfCOT = cfg_cot; al->sizeOfCA = cfg_ca; al->sizeOfIOA = cfg_ioa; al->originatorAddress = cfg_oa;
            int cot = kv(line, "cot", 6), ca = kv(line, "ca", 1), q = kv(line, "q", 0), ioa = kv(line, "ioa", 0), d = kv(line, "d", 0), tsc = kv(line, "tsc", 0);
            struct sCP56Time2a t; memset(&t, 0, sizeof t); kvhex(line, "t", t.encodedValue);
            int ret = 1;
            pre();
#ifdef ROLE_C104
            if (!strcmp(what, "ic")) ret = CS104_Connection_sendInterrogationCommand(con, (CS101_CauseOfTransmission) cot, ca, (QualifierOfInterrogation) q);
            else if (!strcmp(what, "ci")) ret = CS104_Connection_sendCounterInterrogationCommand(con, (CS101_CauseOfTransmission) cot, ca, (uint8_t) q);
            else if (!strcmp(what, "rd")) ret = CS104_Connection_sendReadCommand(con, ca, ioa);
            else if (!strcmp(what, "cs")) ret = CS104_Connection_sendClockSyncCommand(con, ca, &t);
            else if (!strcmp(what, "ts")) ret = CS104_Connection_sendTestCommand(con, ca);
            else if (!strcmp(what, "tsta")) ret = CS104_Connection_sendTestCommandWithTimestamp(con, ca, (uint16_t) tsc, &t);
            else if (!strcmp(what, "rp")) { struct sResetProcessCommand io; ResetProcessCommand_create(&io, 0, (QualifierOfRPC) q); ret = CS104_Connection_sendProcessCommandEx(con, (CS101_CauseOfTransmission) cot, ca, (InformationObject) &io); }
            else if (!strcmp(what, "cd")) { struct sCP16Time2a dl; memset(&dl, 0, sizeof dl); CP16Time2a_setEplapsedTimeInMs(&dl, d); struct sDelayAcquisitionCommand io; DelayAcquisitionCommand_create(&io, 0, &dl);
                                            ret = CS104_Connection_sendProcessCommandEx(con, (CS101_CauseOfTransmission) cot, ca, (InformationObject) &io); }
#else
            if (!strcmp(what, "ic")) CS101_Master_sendInterrogationCommand(master, (CS101_CauseOfTransmission) cot, ca, (QualifierOfInterrogation) q);
            else if (!strcmp(what, "ci")) CS101_Master_sendCounterInterrogationCommand(master, (CS101_CauseOfTransmission) cot, ca, (uint8_t) q);
            else if (!strcmp(what, "rd")) CS101_Master_sendReadCommand(master, ca, ioa);
            else if (!strcmp(what, "cs")) CS101_Master_sendClockSyncCommand(master, ca, &t);
            else if (!strcmp(what, "ts")) CS101_Master_sendTestCommand(master, ca);
            else if (!strcmp(what, "rp")) { struct sResetProcessCommand io; ResetProcessCommand_create(&io, 0, (QualifierOfRPC) q); CS101_Master_sendProcessCommand(master, (CS101_CauseOfTransmission) cot, ca, (InformationObject) &io); }
            else if (!strcmp(what, "cd")) { struct sCP16Time2a dl; memset(&dl, 0, sizeof dl); CP16Time2a_setEplapsedTimeInMs(&dl, d); struct sDelayAcquisitionCommand io; DelayAcquisitionCommand_create(&io, 0, &dl);
                                            CS101_Master_sendProcessCommand(master, (CS101_CauseOfTransmission) cot, ca, (InformationObject) &io); }
#endif
            else { printf("? %s", line); continue; }
            uint8_t a[300]; int n = take_built(a);
            if (n < 0) printf("built none ret=%d\n", ret);
            else { printf("built "); puthex(a, n); printf(" ret=%d\n", ret); decode(a, n); }
        }
        else printf("? %s", line);
        fflush(stdout);
    }
    return 0;
}
#endif
