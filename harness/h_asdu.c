/* h_asdu -- drives the REAL ASDU / information-object codec of lib60870 from a script (C01, C02, C12).
 *
 * script lines (one stimulus per line)           trace lines
 *   cfg <cot> <ca> <ioa> <max>                   (none)
 *   new <sq> <cot> <oa> <ca> <test> <neg>        asdu <hex>
 *   add <tid> <ioa> <bodyhex> <ctor args..>      add <0|1> <hex>        object built with the PUBLIC constructor from the ctor args
 *   addraw <hex>                                 addraw <0|1> <hex>     CS101_ASDU_addPayload
 *   set <type|n|sq|cot|ca|test|neg> <v>          asdu <hex>
 *   rm                                           asdu <hex>             CS101_ASDU_removeAllElements
 *   clone                                        clone <hex>            heap clone and clone into caller storage (must agree)
 *   dec <hex> <i,j,..>                           hdr null | hdr t= sq= n= cot= tst= neg= oa= ca=   then per index
 *                                                el <i> null | el <i> t=<tid> ioa=<n> b=<bodyhex>
 *                                                (C only) gv <i> getter=value ...   ex <i> .. only when getElementEx with caller storage differs
 *   trunc <hex> <i,j,..>                         T <len> + the `dec` output for every prefix length 0..len
 *   parse                                        `dec` of the current ASDU for every index below its element count
 *   reenc                                        reenc <hex>   every element parsed from the current ASDU added to a fresh ASDU
 * Every received ASDU is copied into a malloc block of exactly its length (ASan red zones on both sides).
 * `b=` is the object's own encoding (IOA stripped) obtained by adding it to a scratch ASDU, i.e. the library's encoder.  */
#include <stdio.h>
#include <stdlib.h>
#include <string.h>
#include <stdint.h>
#include <stdbool.h>
#include "iec60870_common.h"
#include "cs101_information_objects.h"
#include "information_objects_internal.h"
#include "cs101_asdu_internal.h"

static struct sCS101_AppLayerParameters alp = { 1, 1, 2, 0, 2, 3, 249 };
static struct sCS101_AppLayerParameters salp = { 1, 1, 1, 0, 1, 3, 256 };   /* scratch: smallest header, largest size */
static CS101_ASDU cur = NULL;
static int cur_sq, cur_cot, cur_oa, cur_ca, cur_test, cur_neg;

static int hexval(int c) { return c <= '9' ? c - '0' : (c | 32) - 'a' + 10; }
static int unhex(const char* s, uint8_t* out, int cap)
{
    int n = 0;
    if (s == NULL || s[0] == '-' || s[0] == 0) return 0;
    while (s[0] && s[1] && n < cap) { out[n++] = (uint8_t) (hexval(s[0]) * 16 + hexval(s[1])); s += 2; }
    return n;
}
static void puthex(const uint8_t* p, int n)
{
    if (n <= 0) { putchar('-'); return; }
    for (int i = 0; i < n; i++) printf("%02x", p[i]);
}
static long long AI(const char* s) { return strtoll(s, NULL, 10); }
static float AF(const char* s) { uint32_t b = (uint32_t) strtoull(s, NULL, 10); float f; memcpy(&f, &b, 4); return f; }
static unsigned FB(float f) { uint32_t b; memcpy(&b, &f, 4); return b; }
#define PI(name, v) printf(" %s=%lld", name, (long long) (v))
#define PF(name, v) printf(" %s=%u", name, FB(v))
#define PH(name, p, n) do { printf(" %s=", name); puthex((const uint8_t*) (p), n); } while (0)

static uint8_t* keep[64];
static int nkeep = 0;
static uint8_t* keepdata(const char* hex, int* len)
{
    uint8_t tmp[300];
    *len = unhex(hex, tmp, sizeof tmp);
    uint8_t* p = (uint8_t*) malloc(*len ? *len : 1);
    memcpy(p, tmp, *len);
    if (nkeep < 64) keep[nkeep++] = p;
    return p;
}
static void dropdata(void) { while (nkeep > 0) free(keep[--nkeep]); }

#include "asdu_dispatch.inc"   /* GENERATED from pylib/props/asdu_spec.py: mk_object(), print_getters() */

static void asduhex(const char* tag, CS101_ASDU a)
{
    printf("%s ", tag);
    puthex(a->asdu, a->asduHeaderLength + a->payloadSize);
    putchar('\n');
}

/* the object's own encoding with the IOA stripped; "!" when the library's encoder refuses it */
static int fmt_body(char* o, InformationObject io)
{
    int n = 0;
    salp.sizeOfIOA = alp.sizeOfIOA;
    CS101_ASDU s = CS101_ASDU_create(&salp, false, CS101_COT_SPONTANEOUS, 0, 1, false, false);
    if (CS101_ASDU_addInformationObject(s, io)) {
        const uint8_t* p = CS101_ASDU_getPayload(s) + alp.sizeOfIOA;
        int len = CS101_ASDU_getPayloadSize(s) - alp.sizeOfIOA;
        if (len <= 0) o[n++] = '-';
        for (int i = 0; i < len; i++) n += sprintf(o + n, "%02x", p[i]);
    }
    else
        o[n++] = '!';
    o[n] = 0;
    CS101_ASDU_destroy(s);
    return n;
}

static void fmt_el(char* o, int i, InformationObject io)
{
    if (io == NULL) { sprintf(o, "%d null", i); return; }
    int n = sprintf(o, "%d t=%d ioa=%d b=", i, (int) InformationObject_getType(io), InformationObject_getObjectAddress(io));
    fmt_body(o + n, io);
}

static void do_dec(const uint8_t* bytes, int len, const int* idx, int nidx, int all)
{
    uint8_t* blk = (uint8_t*) malloc(len);          /* exactly len octets */
    memcpy(blk, bytes, len);
    CS101_ASDU a = CS101_ASDU_createFromBuffer(&alp, blk, len);
    {   /* the same octets through the entry point with CALLER-supplied ASDU storage (what the CS104 / CS101 receive paths use): it must
           accept exactly what the allocating entry point accepts and read the same header; a line is printed only when they differ */
        static sCS101_StaticASDU stx;
        uint8_t* blk2 = (uint8_t*) malloc(len);
        memcpy(blk2, bytes, len);
        CS101_ASDU b = CS101_ASDU_createFromBufferEx((CS101_ASDU) &stx, &alp, blk2, len);
        if ((a == NULL) != (b == NULL)) printf("hx accept-mismatch heap=%d caller=%d len=%d\n", a != NULL, b != NULL, len);
        else if (b && ((int) CS101_ASDU_getTypeID(a) != (int) CS101_ASDU_getTypeID(b) || CS101_ASDU_getNumberOfElements(a) != CS101_ASDU_getNumberOfElements(b) ||
                       (int) CS101_ASDU_getCOT(a) != (int) CS101_ASDU_getCOT(b) || CS101_ASDU_getCA(a) != CS101_ASDU_getCA(b) || CS101_ASDU_getOA(a) != CS101_ASDU_getOA(b)))
            printf("hx header-mismatch len=%d\n", len);
        free(blk2);
    }
    if (a == NULL) { printf("hdr null\n"); free(blk); return; }
    printf("hdr t=%d sq=%d n=%d cot=%d tst=%d neg=%d oa=%d ca=%d\n", (int) CS101_ASDU_getTypeID(a), CS101_ASDU_isSequence(a) ? 1 : 0,
           CS101_ASDU_getNumberOfElements(a), (int) CS101_ASDU_getCOT(a), CS101_ASDU_isTest(a) ? 1 : 0, CS101_ASDU_isNegative(a) ? 1 : 0,
           CS101_ASDU_getOA(a), CS101_ASDU_getCA(a));
    int n = all ? CS101_ASDU_getNumberOfElements(a) : nidx;
    for (int k = 0; k < n; k++) {
        int i = all ? k : idx[k];
        InformationObject io = CS101_ASDU_getElement(a, i);                 /* heap result */
        static char e1[1200], e2[1200];
        fmt_el(e1, i, io);
        printf("el %s\n", e1);
        if (io) { printf("gv %d", i); print_getters(io); putchar('\n'); }
        union uInformationObject u;                                         /* caller-supplied result */
        memset(&u, 0x5a, sizeof u);
        InformationObject ex = CS101_ASDU_getElementEx(a, (InformationObject) &u, i);
        fmt_el(e2, i, ex);
        if (strcmp(e1, e2)) printf("ex %s\n", e2);                       /* only when it differs from the heap result */
        if (io) InformationObject_destroy(io);
        fflush(stdout);
    }
    CS101_ASDU_destroy(a);
    free(blk);
}

static int parse_idx(const char* s, int* out, int cap)
{
    int n = 0;
    while (s && *s && n < cap) {
        out[n++] = (int) strtol(s, (char**) &s, 10);
        if (*s == ',') s++;
    }
    return n;
}

static void newasdu(void)
{
    if (cur) CS101_ASDU_destroy(cur);
    cur = CS101_ASDU_create(&alp, cur_sq, (CS101_CauseOfTransmission) cur_cot, cur_oa, cur_ca, cur_test, cur_neg);
}

int main(void)
{
    static char line[8192];
    static uint8_t buf[4096];
    char* tk[64];
    setvbuf(stdout, NULL, _IOFBF, 1 << 16);
    while (fgets(line, sizeof line, stdin)) {
        size_t L = strlen(line);
        while (L && (line[L - 1] == '\n' || line[L - 1] == '\r')) line[--L] = 0;
        if (!strncmp(line, "--- ", 4)) {
            puts(line); fflush(stdout);
            if (cur) { CS101_ASDU_destroy(cur); cur = NULL; }
            dropdata();
            continue;
        }
        int nt = 0;
        for (char* p = strtok(line, " "); p && nt < 64; p = strtok(NULL, " ")) tk[nt++] = p;
        if (nt == 0) continue;
        if (!strcmp(tk[0], "cfg") && nt == 5) {
            alp.sizeOfCOT = atoi(tk[1]); alp.sizeOfCA = atoi(tk[2]); alp.sizeOfIOA = atoi(tk[3]); alp.maxSizeOfASDU = atoi(tk[4]);
        }
        else if (!strcmp(tk[0], "new") && nt == 7) {
            cur_sq = atoi(tk[1]); cur_cot = atoi(tk[2]); cur_oa = atoi(tk[3]); cur_ca = atoi(tk[4]); cur_test = atoi(tk[5]); cur_neg = atoi(tk[6]);
            newasdu();
            asduhex("asdu", cur);
        }
        else if (!strcmp(tk[0], "add") && nt >= 4 && cur) {
            InformationObject io = mk_object(atoi(tk[1]), atoi(tk[2]), tk + 4, nt - 4);
            if (io == NULL) { printf("add ? -\n"); continue; }
            bool r = CS101_ASDU_addInformationObject(cur, io);
            printf("add %d ", r ? 1 : 0);
            puthex(cur->asdu, cur->asduHeaderLength + cur->payloadSize);
            putchar('\n');
            InformationObject_destroy(io);
        }
        else if (!strcmp(tk[0], "addraw") && nt == 2 && cur) {
            int n = unhex(tk[1], buf, sizeof buf);
            uint8_t* blk = (uint8_t*) malloc(n ? n : 1);
            memcpy(blk, buf, n);
            bool r = CS101_ASDU_addPayload(cur, blk, n);
            free(blk);
            printf("addraw %d ", r ? 1 : 0);
            puthex(cur->asdu, cur->asduHeaderLength + cur->payloadSize);
            putchar('\n');
        }
        else if (!strcmp(tk[0], "set") && nt == 3 && cur) {
            int v = atoi(tk[2]);
            if (!strcmp(tk[1], "type")) CS101_ASDU_setTypeID(cur, (IEC60870_5_TypeID) v);
            else if (!strcmp(tk[1], "n")) CS101_ASDU_setNumberOfElements(cur, v);
            else if (!strcmp(tk[1], "sq")) CS101_ASDU_setSequence(cur, v != 0);
            else if (!strcmp(tk[1], "cot")) CS101_ASDU_setCOT(cur, (CS101_CauseOfTransmission) v);
            else if (!strcmp(tk[1], "ca")) CS101_ASDU_setCA(cur, v);
            else if (!strcmp(tk[1], "test")) CS101_ASDU_setTest(cur, v != 0);
            else if (!strcmp(tk[1], "neg")) CS101_ASDU_setNegative(cur, v != 0);
            asduhex("asdu", cur);
        }
        else if (!strcmp(tk[0], "rm") && cur) {
            CS101_ASDU_removeAllElements(cur);
            asduhex("asdu", cur);
        }
        else if (!strcmp(tk[0], "clone") && cur) {
            CS101_ASDU c = CS101_ASDU_clone(cur, NULL);
            asduhex("clone", c);
            CS101_StaticASDU st = (CS101_StaticASDU) malloc(sizeof(sCS101_StaticASDU));
            CS101_ASDU c2 = CS101_ASDU_clone(cur, st);
            if (c2->asduHeaderLength + c2->payloadSize != c->asduHeaderLength + c->payloadSize ||
                memcmp(c2->asdu, c->asdu, c->asduHeaderLength + c->payloadSize)) asduhex("clone-static-differs", c2);
            free(st);
            CS101_ASDU_destroy(c);
        }
        else if ((!strcmp(tk[0], "dec") || !strcmp(tk[0], "trunc")) && nt >= 2) {
            int idx[160];
            int n = unhex(tk[1], buf, sizeof buf);
            int ni = nt >= 3 ? parse_idx(tk[2], idx, 160) : 0;
            if (tk[0][0] == 'd') do_dec(buf, n, idx, ni, 0);
            else for (int l = 0; l <= n; l++) { printf("T %d\n", l); do_dec(buf, l, idx, ni, 0); }
        }
        else if (!strcmp(tk[0], "parse") && cur) {
            do_dec(cur->asdu, cur->asduHeaderLength + cur->payloadSize, NULL, 0, 1);
        }
        else if (!strcmp(tk[0], "reenc") && cur) {
            int len = cur->asduHeaderLength + cur->payloadSize;
            uint8_t* blk = (uint8_t*) malloc(len);
            memcpy(blk, cur->asdu, len);
            CS101_ASDU a = CS101_ASDU_createFromBuffer(&alp, blk, len);
            CS101_ASDU b = CS101_ASDU_create(&alp, CS101_ASDU_isSequence(a), CS101_ASDU_getCOT(a), CS101_ASDU_getOA(a) < 0 ? 0 : CS101_ASDU_getOA(a),
                                             CS101_ASDU_getCA(a), CS101_ASDU_isTest(a), CS101_ASDU_isNegative(a));
            int n = CS101_ASDU_getNumberOfElements(a), ok = 1;
            for (int i = 0; i < n && ok; i++) {
                InformationObject io = CS101_ASDU_getElement(a, i);
                if (io == NULL || !CS101_ASDU_addInformationObject(b, io)) ok = 0;
                if (io) InformationObject_destroy(io);
            }
            if (ok) asduhex("reenc", b); else printf("reenc !\n");
            CS101_ASDU_destroy(b);
            CS101_ASDU_destroy(a);
            free(blk);
        }
        else
            printf("? %s\n", tk[0]);
        fflush(stdout);
    }
    return 0;
}
