/* h_file: the REAL file-service plugin (file_server.c) driven through its two plugin entry points
 * (handleAsdu / runTask) with a stub IMasterConnection that records every ASDU the plugin sends, a scripted
 * master (the script), a provider offering one file (slave application) and a receiver (upload direction).
 * White-box #include only to dump the transfer state after every step; every decision is the library's.
 *
 * script:
 *   cfg cot=<1|2> ca=<1|2> ioa=<1|2|3> max=<maxSizeOfASDU> timeout=<ms>     (re-creates the file server)
 *   file ca=<n> ioa=<n> nof=<n> seed=<n> secs=<len>,<len>,...                the file offered by the provider
 *                                     octet o of section s (0-based) = (seed*131 + s*31 + o*7 + (o>>8)) & 255
 *   recv <0..4>          file-ready handler: 0 none, 1 accept, 2 refuse (errCode 0), 3 errCode 1, 4 errCode 2
 *   rx <asdu-hex>        plugin->handleAsdu on connection c0       (rx2: on a second connection c1)
 *   run [n]              plugin->runTask n times on c0             (run2: on c1)
 *   adv <ms>             advance the virtual clock
 * trace:
 *   res <NOT_HANDLED|HANDLED|INVALID> | tx c<i> <asdu-hex> | cb ... | st <state> nos= off= size= schs= fchs= sel= rcv=  */
#include <stdio.h>
#include <stdlib.h>
#include <string.h>
#include "simhal.h"
#include "file_server.c"
#include "cs101_asdu_internal.h"

static int hexval(char c) { return c <= '9' ? c - '0' : (c | 32) - 'a' + 10; }
static int unhex(const char* s, uint8_t* out) { if (!strcmp(s, "-")) return 0; int n = (int) strlen(s) / 2; for (int i = 0; i < n; i++) out[i] = (uint8_t) (hexval(s[2 * i]) * 16 + hexval(s[2 * i + 1])); return n; }
static void puthex(const uint8_t* b, int n) { if (n <= 0) printf("-"); for (int i = 0; i < n; i++) printf("%02x", b[i]); }
static int kv(const char* line, const char* key, int dflt)
{
    char pat[40]; snprintf(pat, sizeof pat, " %s=", key);
    const char* p = strstr(line, pat);
    return p ? atoi(p + strlen(pat)) : dflt;
}

static struct sCS101_AppLayerParameters alp = {1, 1, 2, 0, 2, 3, 249};
static int cfg_timeout = 3000;
static CS101_FileServer fs = NULL;

/* ---- stub connections */
static bool c_isReady(IMasterConnection self) { return true; }
static bool c_send(IMasterConnection self, CS101_ASDU asdu)
{
    printf("tx c%d ", (int) (intptr_t) self->object); puthex(asdu->asdu, asdu->asduHeaderLength + asdu->payloadSize); printf("\n");
    return true;
}
static bool c_actcon(IMasterConnection self, CS101_ASDU asdu, bool neg) { CS101_ASDU_setCOT(asdu, CS101_COT_ACTIVATION_CON); CS101_ASDU_setNegative(asdu, neg); return c_send(self, asdu); }
static bool c_actterm(IMasterConnection self, CS101_ASDU asdu) { CS101_ASDU_setCOT(asdu, CS101_COT_ACTIVATION_TERMINATION); CS101_ASDU_setNegative(asdu, false); return c_send(self, asdu); }
static CS101_AppLayerParameters c_alp(IMasterConnection self) { return &alp; }
static struct sIMasterConnection conns[2] = {
    { c_isReady, c_send, c_actcon, c_actterm, NULL, NULL, c_alp, (void*) 0 },
    { c_isReady, c_send, c_actcon, c_actterm, NULL, NULL, c_alp, (void*) 1 },
};

/* ---- provider (slave application offering one file) */
static struct { int ca, ioa, nof, seed, nsec; int len[16]; } F;
static uint8_t content(int s, int o) { return (uint8_t) ((F.seed * 131 + s * 31 + o * 7 + (o >> 8)) & 255); }
static uint64_t p_date(CS101_IFileProvider self) { return 0; }
static int p_size(CS101_IFileProvider self) { int t = 0; for (int i = 0; i < F.nsec; i++) t += F.len[i]; printf("cb filesize -> %d\n", t); return t; }
static int p_secsize(CS101_IFileProvider self, int n) { int v = (n >= 0 && n < F.nsec) ? F.len[n] : 0; printf("cb sectionsize %d -> %d\n", n, v); return v; }
static bool p_segdata(CS101_IFileProvider self, int sec, int off, int size, uint8_t* data)
{
    printf("cb segdata sec=%d off=%d size=%d\n", sec, off, size);
    for (int i = 0; i < size; i++) data[i] = (sec >= 0 && sec < F.nsec && off + i < F.len[sec]) ? content(sec, off + i) : 0;
    return true;
}
static void p_complete(CS101_IFileProvider self, bool ok) { printf("cb complete %d\n", ok); }
static struct sCS101_IFileProvider provider = { 0, 0, 0, NULL, p_date, p_size, p_secsize, p_segdata, p_complete };
static CS101_IFileProvider fa_next(void* p, CS101_IFileProvider after) { return NULL; }
static CS101_IFileProvider fa_get(void* p, int ca, int ioa, uint16_t nof, int* err)
{
    CS101_IFileProvider r = NULL;
    if (F.nsec < 0) *err = 0;
    else if (ca != F.ca) *err = 1;
    else if (ioa != F.ioa) *err = 2;
    else if (nof != F.nof) *err = 0;
    else r = &provider;
    printf("cb getfile ca=%d ioa=%d nof=%d -> %d\n", ca, ioa, nof, r ? -1 : *err);
    return r;
}
static struct sCS101_FilesAvailable files = { fa_next, fa_get, NULL };

/* ---- receiver (upload direction) */
static int recv_mode = 1;
static void r_finished(CS101_IFileReceiver self, CS101_FileErrorCode result) { printf("cb finished %d\n", result); }
static void r_segment(CS101_IFileReceiver self, uint8_t nos, int offset, int size, uint8_t* data)
{ printf("cb segment nos=%d off=%d size=%d data=", nos, offset, size); puthex(data, size); printf("\n"); }
static struct sCS101_IFileReceiver receiver = { NULL, r_finished, r_segment };
static CS101_IFileReceiver file_ready(void* p, int ca, int ioa, uint16_t nof, int lof, int* err)
{
    printf("cb fileready ca=%d ioa=%d nof=%d lof=%d mode=%d\n", ca, ioa, nof, lof, recv_mode);
    if (recv_mode == 1) return &receiver;
    *err = recv_mode == 3 ? 1 : recv_mode == 4 ? 2 : 0;
    return NULL;
}

static void fresh(void)
{
    if (fs) CS101_FileServer_destroy(fs);
    fs = CS101_FileServer_create(&alp);
    fs->timeout = (uint64_t) cfg_timeout;
    CS101_FileServer_setFilesAvailableIfc(fs, &files);
    if (recv_mode) CS101_FileServer_setFileReadyHandler(fs, file_ready, NULL);
}
static void dump(void)
{
    static const char* n[] = {"IDLE", "WAIT_FILE_CALL", "WAIT_SECTION_CALL", "TRANSMIT", "WAIT_SECTION_ACK", "WAIT_FILE_ACK", "SEND_ABORT", "COMPLETED", "WAIT_SECTION_READY", "RECEIVE"};
    printf("st %s nos=%d off=%d size=%d schs=%d fchs=%d sel=%d rcv=%d\n", n[fs->state], fs->currentSectionNumber, fs->currentSectionOffset, fs->currentSectionSize,
           fs->sectionChecksum, fs->fileChecksum, fs->selectedFile != NULL, fs->fileReceiver != NULL);
}

int main(void)
{
    static char line[4096]; static uint8_t b[2048];
    setvbuf(stdout, NULL, _IOFBF, 1 << 16);
    F.nsec = -1;
    while (fgets(line, sizeof line, stdin)) {
        char cmd[32], a1[2048];
        if (sscanf(line, "%31s", cmd) != 1) continue;
        if (!strcmp(cmd, "---")) {
            alp.sizeOfCOT = 2; alp.sizeOfCA = 2; alp.sizeOfIOA = 3; alp.maxSizeOfASDU = 249; cfg_timeout = 3000; recv_mode = 1; F.nsec = -1;
            Sim_setTime(1000000); fresh();
            fputs(line, stdout); fflush(stdout); continue;
        }
        if (!fs) fresh();
        if (!strcmp(cmd, "cfg")) {
            alp.sizeOfCOT = kv(line, "cot", alp.sizeOfCOT); alp.sizeOfCA = kv(line, "ca", alp.sizeOfCA); alp.sizeOfIOA = kv(line, "ioa", alp.sizeOfIOA);
            alp.maxSizeOfASDU = kv(line, "max", alp.maxSizeOfASDU); cfg_timeout = kv(line, "timeout", cfg_timeout);
            fresh();
        }
        else if (!strcmp(cmd, "file")) {
            F.ca = kv(line, "ca", 1); F.ioa = kv(line, "ioa", 30000); F.nof = kv(line, "nof", 1); F.seed = kv(line, "seed", 1); F.nsec = 0;
            const char* p = strstr(line, " secs=");
            if (p) { p += 6; while (*p && *p != '\n' && *p != ' ' && F.nsec < 16) { if (*p == '-') break; F.len[F.nsec++] = atoi(p); while (*p && *p != ',' && *p != '\n' && *p != ' ') p++; if (*p == ',') p++; } }
        }
        else if (!strcmp(cmd, "recv")) { sscanf(line, "%*s %d", &recv_mode); fs->fileReadyHandler = recv_mode ? file_ready : NULL; }
        else if (!strcmp(cmd, "rx") || !strcmp(cmd, "rx2")) {
            if (sscanf(line, "%*s %2047s", a1) != 1) continue;
            int n = unhex(a1, b);
            uint8_t* exact = malloc(n ? n : 1); memcpy(exact, b, n);         /* exact-size block: over-reads are seen by ASan */
            struct sCS101_ASDU _a;
            CS101_ASDU a = CS101_ASDU_createFromBufferEx(&_a, &alp, exact, n);
            if (!a) printf("res SHORT\n");
            else {
                CS101_SlavePlugin pl = CS101_FileServer_getSlavePlugin(fs);
                CS101_SlavePlugin_Result r = pl->handleAsdu(pl->parameter, &conns[cmd[2] == '2'], a);
                printf("res %s\n", r == CS101_PLUGIN_RESULT_HANDLED ? "HANDLED" : r == CS101_PLUGIN_RESULT_NOT_HANDLED ? "NOT_HANDLED" : "INVALID");
            }
            free(exact);
            dump();
        }
        else if (!strcmp(cmd, "run") || !strcmp(cmd, "run2")) {
            int n = 1; sscanf(line, "%*s %d", &n);
            CS101_SlavePlugin pl = CS101_FileServer_getSlavePlugin(fs);
            for (int i = 0; i < n; i++) pl->runTask(pl->parameter, &conns[cmd[3] == '2']);
            dump();
        }
        else if (!strcmp(cmd, "adv")) { long long ms = 0; sscanf(line, "%*s %lld", &ms); Sim_advance((uint64_t) ms); }
        else if (!strcmp(cmd, "clock")) { long long ms = 0; sscanf(line, "%*s %lld", &ms); Sim_setTime((uint64_t) ms); }   /* origin of the monotonic clock */
        else printf("? %s", line);
        fflush(stdout);
    }
    return 0;
}
