/* h_cs104c: drives the REAL CS104 client (CS104_Connection) on the simulated HAL.
 * The library's own connection thread runs, but it is parked inside the simulated
 * Handleset_waitReady and released for exactly one loop iteration per `step`, so every run is
 * deterministic.  White-box include only for poking the counters and dumping state.
 *
 * script:  cfg k= w= t0= t1= t2= t3= cot= ca= ioa=
 *          connect [refuse] | step [n] | adv <ms> | rx <hex> | peerclose | wmode <0|1|2>
 *          startdt | stopdt | send <asdu-hex> | ic <ca> <qoi> | rd <ca> <ioa> | close | destroy
 *          poke vs=<n> vr=<n> | dump | cbsend <n> (next n ASDU callbacks send a read command from inside the callback)
 *          (C18) connectfail     connect attempt whose socket cannot be created (TcpSocket_create returns NULL); joins the thread
 *          (C18) ustartdt | ustopdt   CS104_Connection_sendStartDT / sendStopDT whatever the connection state (use after close)
 *          (C18) halnull         `halnull <n>`: how often the library handed a NULL socket to Socket_write since the last query
 * trace:   tx <hex> | ev <NAME> | cb asdu <hex> | ret <0|1> | st ... */
#include <stdio.h>
#include <stdlib.h>
#include <string.h>
#include <pthread.h>
#include "simhal.h"
/* (C18) the simulated HAL tolerates a NULL socket, the real one (socket_linux.c Socket_write) dereferences it: count such
   calls; socket creation can be made to fail.  Nothing is printed unless a script asks with `halnull`. */
static int hal_null_calls = 0, fail_socket_create = 0;
static int h_Socket_write(Socket s, uint8_t* b, int n) { if (!s) hal_null_calls++; return Socket_write(s, b, n); }
static Socket h_TcpSocket_create(void) { if (fail_socket_create) return NULL; return TcpSocket_create(); }
#define Socket_write h_Socket_write
#define TcpSocket_create h_TcpSocket_create
#include "cs104_connection.c"
#undef Socket_write
#undef TcpSocket_create

static CS104_Connection con = NULL;
static Socket sock = NULL;
static pthread_mutex_t mx = PTHREAD_MUTEX_INITIALIZER;
static pthread_cond_t gate_cv = PTHREAD_COND_INITIALIZER, harness_cv = PTHREAD_COND_INITIALIZER;
static int gate_allowed = 0, at_gate = 0, thread_done = 1, freerun = 0;
/* events and deliveries are produced on the connection thread: buffer them and print from the harness thread */
static char evbuf[1 << 20]; static int evlen = 0;
static void evprintf(const char* s) { int n = (int) strlen(s); if (evlen + n < (int) sizeof evbuf) { memcpy(evbuf + evlen, s, n); evlen += n; } }

static struct { int k, w, t0, t1, t2, t3, cot, ca, ioa; } cfg;
static int peer_ns = 0, peer_seen = 0;   /* the simulated server's counters */
static void cfg_default(void) { cfg.k = 12; cfg.w = 8; cfg.t0 = 10; cfg.t1 = 15; cfg.t2 = 10; cfg.t3 = 20; cfg.cot = 2; cfg.ca = 2; cfg.ioa = 3; }

static int hexval(char c) { return c <= '9' ? c - '0' : (c | 32) - 'a' + 10; }
static int unhex(const char* s, uint8_t* out) { if (!strcmp(s, "-")) return 0; int n = (int) strlen(s) / 2; for (int i = 0; i < n; i++) out[i] = (uint8_t) (hexval(s[2 * i]) * 16 + hexval(s[2 * i + 1])); return n; }
static void sputhex(char* dst, const uint8_t* b, int n) { if (n == 0) strcpy(dst, "-"); else { for (int i = 0; i < n; i++) sprintf(dst + 2 * i, "%02x", b[i]); } }

static int wait_hook(HandleSet hs, unsigned int timeoutMs, int ready)
{
    (void) hs; (void) timeoutMs; (void) ready;
    pthread_mutex_lock(&mx);
    at_gate = 1; pthread_cond_broadcast(&harness_cv);
    while (gate_allowed == 0 && !freerun) pthread_cond_wait(&gate_cv, &mx);
    if (!freerun) gate_allowed--;
    at_gate = 0;
    pthread_mutex_unlock(&mx);
    Socket s = sim_last_client_socket;
    return s && (s->rxLen > 0 || s->peerClosed);
}

static void conn_handler(void* p, CS104_Connection c, CS104_ConnectionEvent ev)
{
    static const char* n[] = {"OPENED", "CLOSED", "STARTDT_CON", "STOPDT_CON", "FAILED"};
    char b[64]; snprintf(b, sizeof b, "ev %s\n", n[ev]); evprintf(b);
    if (ev == CS104_CONNECTION_CLOSED || ev == CS104_CONNECTION_FAILED) {
        pthread_mutex_lock(&mx); thread_done = 1; pthread_cond_broadcast(&harness_cv); pthread_mutex_unlock(&mx);
    }
}
static int cb_send_left = 0;   /* `cbsend n`: the next n deliveries answer with a read command from inside the callback */
static bool asdu_handler(void* p, int address, CS101_ASDU asdu)
{
    static char b[700]; strcpy(b, "cb asdu "); sputhex(b + 8, asdu->asdu, asdu->asduHeaderLength + asdu->payloadSize); strcat(b, "\n"); evprintf(b);
    if (cb_send_left > 0 && con) { cb_send_left--; CS104_Connection_sendReadCommand(con, cfg.ca, 77); }
    return true;
}

static void raw_handler(void* p, uint8_t* msg, int n, bool sent)
{
    static char b[700]; strcpy(b, sent ? "raw out " : "raw in "); sputhex(b + strlen(b), msg, n); strcat(b, "\n"); evprintf(b);
}

static void wait_parked(void)
{
    pthread_mutex_lock(&mx);
    while (!((at_gate && gate_allowed == 0) || thread_done)) pthread_cond_wait(&harness_cv, &mx);
    pthread_mutex_unlock(&mx);
}
static void release_thread(void)
{
    pthread_mutex_lock(&mx); freerun = 1; pthread_cond_broadcast(&gate_cv); pthread_mutex_unlock(&mx);
}
static void flush(void)
{
    if (evlen) { fwrite(evbuf, 1, evlen, stdout); evlen = 0; }
    if (sock) {
        static uint8_t buf[65536]; static char hx[131100]; int n = Sim_takeTx(sock, buf, sizeof buf);
        if (n > 0) {
            sputhex(hx, buf, n); printf("tx %s\n", hx);
            for (int p = 0; p + 2 <= n; p += 2 + buf[p + 1]) { if (p + 2 < n && (buf[p + 2] & 1) == 0 && buf[p + 1] >= 4) peer_seen = (peer_seen + 1) % 32768; if (buf[p + 1] == 0) break; }
        }
    }
    if (sim_sem_errors) { printf("sem %d %s\n", sim_sem_errors, sim_sem_error_text); sim_sem_errors = 0; }
}
static void teardown(void)
{
    if (con) { release_thread(); CS104_Connection_destroy(con); con = NULL; }
    flush();
    if (sock) { Sim_freeSocket(sock); sock = NULL; }
    sim_last_client_socket = NULL;
    gate_allowed = 0; at_gate = 0; thread_done = 1; freerun = 0; cb_send_left = 0;
    Sim_reset(); Sim_setTime(1000000); cfg_default();
    hal_null_calls = 0; fail_socket_create = 0;
}

int main(void)
{
    static char line[70000]; static uint8_t b[33000];
    setvbuf(stdout, NULL, _IOFBF, 1 << 16);
    cfg_default();
    sim_wait_hook = wait_hook;
    while (fgets(line, sizeof line, stdin)) {
        char cmd[32], a1[66000]; int x = 0, y = 0;
        if (sscanf(line, "%31s", cmd) != 1) continue;
        if (!strcmp(cmd, "---")) { teardown(); fputs(line, stdout); fflush(stdout); continue; }
        if (!strcmp(cmd, "cfg")) {
            char* tok = strtok(line, " \n");
            while ((tok = strtok(NULL, " \n"))) {
                char key[32]; int val; if (sscanf(tok, "%31[^=]=%d", key, &val) != 2) continue;
#define K(n) if (!strcmp(key, #n)) cfg.n = val;
                K(k) K(w) K(t0) K(t1) K(t2) K(t3) K(cot) K(ca) K(ioa)
            }
            if (con) {   /* re-configuration between connections */
                CS104_APCIParameters ap = CS104_Connection_getAPCIParameters(con);
                ap->k = cfg.k; ap->w = cfg.w; ap->t0 = cfg.t0; ap->t1 = cfg.t1; ap->t2 = cfg.t2; ap->t3 = cfg.t3;
            }
        }
        else if (!strcmp(cmd, "connect")) {
            a1[0] = 0; sscanf(line, "%*s %63s", a1);
            if (!con) {
                con = CS104_Connection_create("server", 2404);
                CS104_APCIParameters ap = CS104_Connection_getAPCIParameters(con);
                ap->k = cfg.k; ap->w = cfg.w; ap->t0 = cfg.t0; ap->t1 = cfg.t1; ap->t2 = cfg.t2; ap->t3 = cfg.t3;
                CS101_AppLayerParameters al = CS104_Connection_getAppLayerParameters(con);
                al->sizeOfCOT = cfg.cot; al->sizeOfCA = cfg.ca; al->sizeOfIOA = cfg.ioa;
                CS104_Connection_setConnectionHandler(con, conn_handler, NULL);
                CS104_Connection_setASDUReceivedHandler(con, asdu_handler, NULL);
                CS104_Connection_setRawMessageHandler(con, raw_handler, NULL);
            }
            else { release_thread(); }
            sim_connect_result = strcmp(a1, "refuse") ? 1 : 0;
            if (sock) { /* previous socket object: the library destroyed it logically; keep memory until teardown */ }
            pthread_mutex_lock(&mx); thread_done = 0; at_gate = 0; gate_allowed = 0; freerun = 0; pthread_mutex_unlock(&mx);
            Socket old = sock;
            CS104_Connection_connectAsync(con);
            wait_parked();
            sock = sim_last_client_socket;
            if (old && old != sock) Sim_freeSocket(old);
            peer_ns = 0; peer_seen = 0;
        }
        else if (!strcmp(cmd, "sconnect")) {
            /* (C18) the blocking CS104_Connection_connect: `sconnect [refuse]`.  The connection thread runs freely for this one;
               prints `sconnect ret=<0|1>` after the events the attempt produced within 30 ms */
            a1[0] = 0; sscanf(line, "%*s %63s", a1);
            if (!con) {
                con = CS104_Connection_create("server", 2404);
                CS104_Connection_setConnectionHandler(con, conn_handler, NULL);
                CS104_Connection_setRawMessageHandler(con, raw_handler, NULL);
            }
            else { release_thread(); }
            sim_connect_result = strcmp(a1, "refuse") ? 1 : 0;
            pthread_mutex_lock(&mx); thread_done = 0; at_gate = 0; gate_allowed = 0; freerun = 1; pthread_mutex_unlock(&mx);
            Socket old = sock;
            int r = CS104_Connection_connect(con) ? 1 : 0;
            usleep(30000);
            sock = sim_last_client_socket;
            if (old && old != sock) Sim_freeSocket(old);
            peer_ns = 0; peer_seen = 0;
            { char b2[48]; snprintf(b2, sizeof b2, "sconnect ret=%d\n", r); evprintf(b2); }
        }
        else if (!strcmp(cmd, "connectfail")) {
            /* the library gives no event we could wait for if it forgets to report the failure: join the thread instead */
            if (!con) {
                con = CS104_Connection_create("server", 2404);
                CS104_Connection_setConnectionHandler(con, conn_handler, NULL);
            }
            else { release_thread(); }
            pthread_mutex_lock(&mx); thread_done = 0; at_gate = 0; gate_allowed = 0; freerun = 1; pthread_mutex_unlock(&mx);
            fail_socket_create = 1;
            CS104_Connection_connectAsync(con);
            CS104_Connection_close(con);
            fail_socket_create = 0;
            pthread_mutex_lock(&mx); thread_done = 1; pthread_mutex_unlock(&mx);
        }
        else if (!strcmp(cmd, "ustartdt")) { if (con) CS104_Connection_sendStartDT(con); }
        else if (!strcmp(cmd, "ustopdt")) { if (con) CS104_Connection_sendStopDT(con); }
        else if (!strcmp(cmd, "halnull")) { printf("halnull %d\n", hal_null_calls); hal_null_calls = 0; }
        else if (!strcmp(cmd, "step")) {
            int n = 1; sscanf(line, "%*s %d", &n);
            for (int i = 0; i < n; i++) {
                pthread_mutex_lock(&mx);
                if (thread_done) { pthread_mutex_unlock(&mx); break; }
                gate_allowed = 1; pthread_cond_broadcast(&gate_cv);
                pthread_mutex_unlock(&mx);
                wait_parked();
            }
        }
        else if (!strcmp(cmd, "adv")) { long long ms; sscanf(line, "%*s %lld", &ms); Sim_advance((uint64_t) ms); }
        else if (!strcmp(cmd, "rx")) { sscanf(line, "%*s %65999s", a1); if (sock) { int n = unhex(a1, b); Sim_feed(sock, b, n); } }
        else if (!strcmp(cmd, "rxi") || !strcmp(cmd, "rxs")) {
            int d1 = 0, d2 = 0; static uint8_t f[300]; int n = 0; a1[0] = 0;
            if (!strcmp(cmd, "rxi")) { sscanf(line, "%*s %1023s %d %d", a1, &d1, &d2); n = unhex(a1, f + 6); } else sscanf(line, "%*s %d", &d2);
            if (sock) {
                int nr = ((peer_seen + d2) % 32768 + 32768) % 32768;
                f[0] = 0x68; f[4] = (uint8_t) ((nr % 128) * 2); f[5] = (uint8_t) (nr / 128);
                if (!strcmp(cmd, "rxi")) {
                    int ns = ((peer_ns + d1) % 32768 + 32768) % 32768;
                    f[1] = (uint8_t) (4 + n); f[2] = (uint8_t) ((ns % 128) * 2); f[3] = (uint8_t) (ns / 128);
                    if (d1 == 0) peer_ns = (peer_ns + 1) % 32768;
                    Sim_feed(sock, f, 6 + n);
                }
                else { f[1] = 4; f[2] = 1; f[3] = 0; Sim_feed(sock, f, 6); }
            }
        }
        else if (!strcmp(cmd, "cbsend")) { sscanf(line, "%*s %d", &x); cb_send_left = x; }
        else if (!strcmp(cmd, "peerclose")) { if (sock) Sim_peerClose(sock); }
        else if (!strcmp(cmd, "wmode")) { sscanf(line, "%*s %d", &x); if (sock) sock->writeMode = x; }
        else if (!strcmp(cmd, "startdt")) { if (con && !thread_done) CS104_Connection_sendStartDT(con); }
        else if (!strcmp(cmd, "stopdt")) { if (con && !thread_done) CS104_Connection_sendStopDT(con); }
        else if (!strcmp(cmd, "send")) {
            sscanf(line, "%*s %1023s", a1); int n = unhex(a1, b);
            if (con) {
                CS101_ASDU a = CS101_ASDU_createFromBuffer(CS104_Connection_getAppLayerParameters(con), b, n);
                if (a) { bool r = CS104_Connection_sendASDU(con, a); printf("ret %d\n", r); CS101_ASDU_destroy(a); } else printf("ret -1\n");
            }
        }
        else if (!strcmp(cmd, "ic")) { sscanf(line, "%*s %d %d", &x, &y); if (con) printf("ret %d\n", CS104_Connection_sendInterrogationCommand(con, CS101_COT_ACTIVATION, x, (QualifierOfInterrogation) y)); }
        else if (!strcmp(cmd, "rd")) { sscanf(line, "%*s %d %d", &x, &y); if (con) printf("ret %d\n", CS104_Connection_sendReadCommand(con, x, y)); }
        else if (!strcmp(cmd, "close")) { if (con) { release_thread(); CS104_Connection_close(con); } }
        else if (!strcmp(cmd, "destroy")) { if (con) { release_thread(); CS104_Connection_destroy(con); con = NULL; } }
        else if (!strcmp(cmd, "poke")) { int vs, vr; sscanf(line, "%*s vs=%d vr=%d", &vs, &vr); if (con) { con->sendCount = vs; con->receiveCount = vr; peer_seen = vs; peer_ns = vr; } }
        else if (!strcmp(cmd, "dump")) {
            if (con) {
                printf("st state=%d run=%d vs=%d vr=%d unconf=%d t2trig=%d old=%d new=%d outtest=%d rpos=%d done=%d k=", con->conState, con->running, con->sendCount, con->receiveCount,
                       con->unconfirmedReceivedIMessages, con->timeoutT2Trigger, con->oldestSentASDU, con->newestSentASDU, con->outstandingTestFCConMessages, con->recvBufPos, thread_done);
                if (con->oldestSentASDU != -1) { int j = con->oldestSentASDU; while (1) { printf("%d,", con->sentASDUs[j].seqNo); if (j == con->newestSentASDU) break; j = (j + 1) % con->maxSentASDUs; } }
                printf("\n");
            }
        }
        else printf("? %s", line);
        flush();
        printf(".\n");       /* end-of-command marker: one block of output per script line */
        fflush(stdout);
    }
    teardown();
    return 0;
}
