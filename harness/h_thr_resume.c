/* h_thr_resume (C06, threaded mode): events transmitted and not acknowledged when their connection ends are transmitted again on
 * the next activated connection -- with the REAL threaded CS104 server (listener thread + one thread per connection) on the
 * simulated HAL.  One scenario per process:
 *   how=<0|1|2|3> mode=<0|2> n=<events> k=<k>
 *     how: 0 the peer closes; 1 the peer sends STOPDT act (unacknowledged events pending), then closes; 2 the application closes the
 *          connection (IMasterConnection_close); 3 the server is stopped and started again
 * trace: `first <ioas>` what the first connection received, `second <ioas>` what the second received, `done`. */
#include <stdio.h>
#include <stdlib.h>
#include <string.h>
#include <pthread.h>
#include <unistd.h>
#include <signal.h>
#include "simhal.h"
#include "cs104_slave.c"

static void* listeners[64]; static int nlisteners = 0;
ServerSocket TcpServerSocket_create(const char* address, int port)
{
    (void) address; (void) port;
    void* p = calloc(1, sizeof(struct sSocket) + 64);
    if (nlisteners < 64) listeners[nlisteners++] = p;
    return p;
}
static void on_alarm(int sig) { (void) sig; const char* m = "hang\n"; if (write(1, m, 5) < 0) {} _exit(3); }

static pthread_mutex_t mx = PTHREAD_MUTEX_INITIALIZER;
static IMasterConnection last_con = NULL; static int n_open = 0, n_act = 0, n_closed = 0;
static void h_event(void* p, IMasterConnection con, CS104_PeerConnectionEvent ev)
{
    (void) p;
    pthread_mutex_lock(&mx);
    if (ev == CS104_CON_EVENT_CONNECTION_OPENED) { last_con = con; n_open++; }
    if (ev == CS104_CON_EVENT_ACTIVATED) n_act++;
    if (ev == CS104_CON_EVENT_CONNECTION_CLOSED) n_closed++;
    pthread_mutex_unlock(&mx);
}
static int get(int* v) { pthread_mutex_lock(&mx); int x = *v; pthread_mutex_unlock(&mx); return x; }
#define WAIT_FOR(cond) do { for (int _w = 0; _w < 30000 && !(cond); _w++) usleep(100); } while (0)

/* collect the event ASDUs (type 1, IOA = event number) out of everything the server wrote to the peer so far */
static uint8_t acc[2][65536]; static int acclen[2];
static int ioas[2][512]; static int nio[2];
static void drain(int which, Socket s)
{
    int n = Sim_takeTx(s, acc[which] + acclen[which], (int) sizeof acc[which] - acclen[which]);
    if (n > 0) acclen[which] += n;
    nio[which] = 0;
    int i = 0;
    while (i + 2 <= acclen[which] && acc[which][i] == 0x68 && i + 2 + acc[which][i + 1] <= acclen[which]) {
        int L = acc[which][i + 1]; const uint8_t* f = acc[which] + i;
        if (L >= 10 + 3 && (f[2] & 1) == 0 && f[6] == 1 && nio[which] < 512) ioas[which][nio[which]++] = f[12] | f[13] << 8 | f[14] << 16;
        i += 2 + L;
    }
}

int main(void)
{
    int how = 0, mode = 0, n = 3, k = 12;
    char line[256];
    setvbuf(stdout, NULL, _IOLBF, 0);
    if (!fgets(line, sizeof line, stdin)) return 0;
    for (char* t = strtok(line, " \n"); t; t = strtok(NULL, " \n")) {
        int v; char key[32];
        if (sscanf(t, "%31[^=]=%d", key, &v) != 2) continue;
        if (!strcmp(key, "how")) how = v; else if (!strcmp(key, "mode")) mode = v; else if (!strcmp(key, "n")) n = v; else if (!strcmp(key, "k")) k = v;
    }
    signal(SIGALRM, on_alarm); alarm(60);
    Sim_setTime(1000000);
    CS104_Slave slave = CS104_Slave_create(50, 10);
    CS104_Slave_setServerMode(slave, (CS104_ServerMode) mode);
    CS104_Slave_getConnectionParameters(slave)->k = k;
    CS104_Slave_setConnectionEventHandler(slave, h_event, NULL);
    if (mode == 2) { CS104_RedundancyGroup g = CS104_RedundancyGroup_create("all"); CS104_Slave_addRedundancyGroup(slave, g); }
    CS101_AppLayerParameters alp = CS104_Slave_getAppLayerParameters(slave);
    static const uint8_t STARTDT_ACT[6] = {0x68, 4, 7, 0, 0, 0}, STOPDT_ACT[6] = {0x68, 4, 0x13, 0, 0, 0};

    CS104_Slave_start(slave);
    Socket a = Sim_newPeer("10.0.0.1:3000");
    WAIT_FOR(get(&n_open) >= 1);
    Sim_feed(a, STARTDT_ACT, 6);
    WAIT_FOR(get(&n_act) >= 1);
    for (int e = 1; e <= n; e++) {
        CS101_ASDU asdu = CS101_ASDU_create(alp, false, CS101_COT_SPONTANEOUS, 0, 1, false, false);
        InformationObject io = (InformationObject) SinglePointInformation_create(NULL, e, true, 0);
        CS101_ASDU_addInformationObject(asdu, io); InformationObject_destroy(io);
        CS104_Slave_enqueueASDU(slave, asdu); CS101_ASDU_destroy(asdu);
    }
    int want = n < k ? n : k;
    WAIT_FOR((drain(0, a), nio[0] >= want));
    printf("first"); for (int i = 0; i < nio[0]; i++) printf(" %d", ioas[0][i]); printf("\n");
    /* nothing is acknowledged; the connection ends */
    if (how == 1) { Sim_feed(a, STOPDT_ACT, 6); usleep(20000); }
    if (how == 0 || how == 1) { Sim_peerClose(a); WAIT_FOR(get(&n_closed) >= 1); }
    else if (how == 2) { IMasterConnection c = NULL; pthread_mutex_lock(&mx); c = last_con; pthread_mutex_unlock(&mx); if (c) IMasterConnection_close(c); WAIT_FOR(get(&n_closed) >= 1); }
    else { CS104_Slave_stop(slave); CS104_Slave_start(slave); usleep(3000); }
    Socket b = Sim_newPeer("10.0.0.1:3001");
    WAIT_FOR(get(&n_open) >= 2);
    Sim_feed(b, STARTDT_ACT, 6);
    WAIT_FOR(get(&n_act) >= 2);
    WAIT_FOR((drain(1, b), nio[1] >= want));
    usleep(20000); drain(1, b);
    printf("second"); for (int i = 0; i < nio[1]; i++) printf(" %d", ioas[1][i]); printf("\n");
    CS104_Slave_stop(slave);
    CS104_Slave_destroy(slave);
    Sim_freeSocket(a); Sim_freeSocket(b);
    for (int i = 0; i < nlisteners; i++) free(listeners[i]);
    printf("done\n");
    return 0;
}
