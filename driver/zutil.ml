(* conversions between OCaml ints / hex strings and the extracted Coq numbers.
   `open Model_<name>` is prepended at build time (vf/core.py build_model), so the datatypes are
   those of the extracted model. *)
let rec pos_of_int (n : int) : positive =
  if n = 1 then XH else if n land 1 = 0 then XO (pos_of_int (n lsr 1)) else XI (pos_of_int (n lsr 1))
let zi (n : int) : z = if n = 0 then Z0 else if n > 0 then Zpos (pos_of_int n) else Zneg (pos_of_int (- n))
let rec int_of_pos (p : positive) : int =
  match p with XH -> 1 | XO q -> 2 * int_of_pos q | XI q -> 2 * int_of_pos q + 1
let iz (x : z) : int = match x with Z0 -> 0 | Zpos p -> int_of_pos p | Zneg p -> - (int_of_pos p)
let rec nat_of_int (n : int) : nat = if n <= 0 then O else S (nat_of_int (n - 1))
let rec int_of_nat (n : nat) : int = match n with O -> 0 | S m -> 1 + int_of_nat m
let bytes_of_hex (s : string) : z list =
  if s = "-" then [] else
  let n = String.length s / 2 in
  List.init n (fun i -> zi (int_of_string ("0x" ^ String.sub s (2 * i) 2)))
let hex_of_bytes (l : z list) : string =
  if l = [] then "-" else String.concat "" (List.map (fun b -> Printf.sprintf "%02x" ((iz b) land 255)) l)
let words (s : string) : string list = List.filter (fun w -> w <> "") (String.split_on_char ' ' (String.trim s))
let iter_lines (f : string -> unit) : unit =
  try while true do f (input_line stdin) done with End_of_file -> ()
