(* runner for the APCI models; same script language as harness/h_unit104.c *)
open Model_apci
open Zutil
let st = ref rinit
let avail = ref ([] : z list)
let closed = ref false
let kmax = ref 12
let kb = ref (kempty (zi 12))
let kvs = ref 0
let sqs = ref { vs = Z0; vr = Z0 }
let do_drain () =
  let calls = ref 0 in
  let stop = ref false in
  while not !stop && (!avail <> [] || (!closed && !calls = 0)) do
    let ((st', rest), r) = recv_call !st !avail !closed in
    incr calls;
    st := st'; avail := rest;
    (match r with
     | RFrame f -> Printf.printf "rm %d pos=%d %s\n" (List.length f) (iz st'.rpos) (hex_of_bytes f)
     | RNone -> Printf.printf "rm 0 pos=%d -\n" (iz st'.rpos)
     | RErr -> Printf.printf "rm -1 pos=%d -\n" (iz st'.rpos); stop := true)
  done
let () =
  iter_lines (fun line ->
    match words line with
    | "---" :: _ -> print_endline line
    | "new" :: rest ->
        st := rinit; avail := []; closed := false;
        (match rest with
         | [kk] -> kmax := int_of_string (List.nth (String.split_on_char '=' kk) 1)
         | _ -> kmax := 12);
        kb := kempty (zi !kmax); kvs := 0
    | ["chunk"; hex] -> avail := !avail @ bytes_of_hex hex; do_drain ()
    | ["close"] -> closed := true; do_drain ()
    | ["kset"; vs; o; n; sl] ->
        let v s = int_of_string (List.nth (String.split_on_char '=' s) 1) in
        let sls = List.filter (fun x -> x <> "") (String.split_on_char ',' (List.nth (String.split_on_char '=' sl) 1)) in
        let given = List.map (fun x -> zi (int_of_string x)) sls in
        let pad = List.init (max 0 (!kmax - List.length given)) (fun _ -> Z0) in
        kvs := v vs;
        kb := { maxk = zi !kmax; oldest = zi (v o); newest = zi (v n); slots = given @ pad }
    | ["kchk"; n] ->
        (match check_seq !kb (zi !kvs) (zi (int_of_string n)) with
         | None -> print_endline "kc FUEL"
         | Some (b, kb') ->
             kb := kb';
             Printf.printf "kc %d old=%d new=%d slots=%s\n" (if b then 1 else 0) (iz kb'.oldest) (iz kb'.newest)
               (String.concat "" (List.map (fun x -> string_of_int (iz x) ^ ",") kb'.slots)))
    | ["sq"; v1; v2] -> sqs := { vs = zi (int_of_string v1); vr = zi (int_of_string v2) }
    | "ev" :: kind :: rest ->
        let e = (match kind, rest with
          | "i", [hex] -> ESendI (bytes_of_hex hex)
          | "s", _ -> ESendS
          | "u", [c] -> ESendU (zi (int_of_string c))
          | _ -> EAccept) in
        let (s', out) = sq_step !sqs e in
        sqs := s';
        List.iter (fun f -> Printf.printf "f %s %d\n" (hex_of_bytes f) (if wf_apdu f then 1 else 0)) out
    | ["kfull"] -> Printf.printf "kf %d\n" (if is_full !kb then 1 else 0)
    | [] -> ()
    | _ -> print_endline ("? " ^ line))
