(* runner for the APCI models; same script language as harness/h_unit104.c *)
open Model_apci
open Zutil
let st = ref rinit
let avail = ref ([] : z list)
let closed = ref false
let do_drain () =
  let calls = ref 0 in
  let stop = ref false in
  while not !stop && (!avail <> [] || (!closed && !calls = 0)) do
    let ((st', rest), r) = recv_call !st !avail !closed in
    incr calls;
    st := st'; avail := rest;
    (match r with
     | RFrame f -> Printf.printf "rm %d pos=%d %s\n" (List.length f) (iz st'.rpos) (hex_of_bytes f)
     | RNone -> Printf.printf "rm 0 pos=%d -\n" (iz st'.rpos)
     | RErr -> Printf.printf "rm -1 pos=%d -\n" (iz st'.rpos); stop := true)
  done
let () =
  iter_lines (fun line ->
    match words line with
    | "---" :: _ -> print_endline line
    | "new" :: _ -> st := rinit; avail := []; closed := false
    | ["chunk"; hex] -> avail := !avail @ bytes_of_hex hex; do_drain ()
    | ["close"] -> closed := true; do_drain ()
    | [] -> ()
    | _ -> print_endline ("? " ^ line))
