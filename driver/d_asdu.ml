(* runner for the table-driven ASDU codec model; same script language as harness/h_asdu.c
   (the C-only `gv` / `ex` lines are not produced here; the checks strip them before comparing) *)
open Model_asdu
open Zutil

let alp = ref { cot_sz = zi 2; ca_sz = zi 2; ioa_sz = zi 3; max_asdu = zi 249 }
let cur : asdu option ref = ref None
let hexs l = hex_of_bytes l
let fault_name = function OOBRead -> "oob-read" | OOBWrite -> "oob-write" | NullWrite -> "null-write" | Uninit -> "uninit" | NoRow -> "no-row"
let ints s = List.map int_of_string (List.filter (fun x -> x <> "") (String.split_on_char ',' s))
let rec take n l = if n <= 0 then [] else match l with [] -> [] | x :: t -> x :: take (n - 1) t

let put_el i r =
  match r with
  | Fault f -> Printf.printf "el %d fault %s\n" i (fault_name f)
  | Ok None -> Printf.printf "el %d null\n" i
  | Ok (Some (t, o)) -> Printf.printf "el %d t=%d ioa=%d b=%s\n" i t (iz o.io_addr) (hexs (norm_body (zi t) o.io_body))

let elem msg i =
  match get_element table !alp msg (zi i) with
  | Fault f -> Fault f
  | Ok None -> Ok None
  | Ok (Some o) -> Ok (Some (iz (List.hd msg), o))

let do_dec msg idx all =
  match parse_hdr !alp msg with
  | None -> print_endline "hdr null"
  | Some h ->
    Printf.printf "hdr t=%d sq=%d n=%d cot=%d tst=%d neg=%d oa=%d ca=%d\n" (iz h.h_type) (if h.h_sq then 1 else 0) (iz h.h_count)
      (iz h.h_cot) (if h.h_test then 1 else 0) (if h.h_neg then 1 else 0) (iz h.h_oa) (iz h.h_ca);
    let idx = if all then List.init (iz h.h_count) (fun i -> i) else idx in
    List.iter (fun i -> put_el i (elem msg i)) idx

let with_cur f = match !cur with None -> print_endline "? no asdu" | Some s -> f s
let show tag s = Printf.printf "%s %s\n" tag (hexs (a_bytes s))
let b s = s <> "0"

let () =
  iter_lines (fun line ->
    match words line with
    | "---" :: _ -> print_endline line; cur := None
    | ["cfg"; c; a; i; m] -> alp := { cot_sz = zi (int_of_string c); ca_sz = zi (int_of_string a); ioa_sz = zi (int_of_string i); max_asdu = zi (int_of_string m) }
    | ["new"; sq; cot; oa; ca; t; n] ->
      let s = new_asdu !alp (b sq) (zi (int_of_string cot)) (zi (int_of_string oa)) (zi (int_of_string ca)) (b t) (b n) in
      cur := Some s; show "asdu" s
    | "add" :: tid :: ioa :: body :: _ ->
      with_cur (fun s ->
        match add_io asdu_fn table !alp s (zi (int_of_string tid)) { io_addr = zi (int_of_string ioa); io_body = bytes_of_hex body } with
        | Fault f -> Printf.printf "add fault %s\n" (fault_name f)
        | Ok (r, s') -> cur := Some s'; Printf.printf "add %d %s\n" (if r then 1 else 0) (hexs (a_bytes s')))
    | ["addraw"; hex] ->
      with_cur (fun s ->
        match add_payload asdu_fn s (bytes_of_hex hex) with
        | Fault f -> Printf.printf "addraw fault %s\n" (fault_name f)
        | Ok (r, s') -> cur := Some s'; Printf.printf "addraw %d %s\n" (if r then 1 else 0) (hexs (a_bytes s')))
    | ["set"; what; v] ->
      with_cur (fun s ->
        let v = int_of_string v in
        let s' = match what with
          | "type" -> set_type (zi v) s | "n" -> set_count (zi v) s | "sq" -> set_sq (v <> 0) s | "cot" -> set_cot (zi v) s
          | "ca" -> set_ca !alp (zi v) s | "test" -> set_test (v <> 0) s | "neg" -> set_neg (v <> 0) s | _ -> s in
        cur := Some s'; show "asdu" s')
    | ["rm"] -> with_cur (fun s -> let s' = remove_all s in cur := Some s'; show "asdu" s')
    | ["clone"] ->
      with_cur (fun s -> match clone asdu_fn !alp s with Fault f -> Printf.printf "clone fault %s\n" (fault_name f) | Ok c -> show "clone" c)
    | "dec" :: hex :: rest -> do_dec (bytes_of_hex hex) (match rest with [i] -> ints i | _ -> []) false
    | "trunc" :: hex :: rest ->
      let m = bytes_of_hex hex in
      let idx = match rest with [i] -> ints i | _ -> [] in
      for l = 0 to List.length m do Printf.printf "T %d\n" l; do_dec (take l m) idx false done
    | ["parse"] -> with_cur (fun s -> do_dec (a_bytes s) [] true)
    | ["reenc"] ->
      with_cur (fun s ->
        let msg = a_bytes s in
        match parse_hdr !alp msg with
        | None -> print_endline "reenc !"
        | Some h ->
          let oa = if iz h.h_oa < 0 then 0 else iz h.h_oa in
          let fresh = new_asdu !alp h.h_sq h.h_cot (zi oa) h.h_ca h.h_test h.h_neg in
          let rec go i acc =
            if i >= iz h.h_count then Some acc else
            match get_element table !alp msg (zi i) with
            | Ok (Some o) ->
              (match add_io asdu_fn table !alp acc h.h_type { io_addr = o.io_addr; io_body = norm_body h.h_type o.io_body } with
               | Ok (true, acc') -> go (i + 1) acc'
               | _ -> None)
            | _ -> None in
          match go 0 fresh with Some r -> show "reenc" r | None -> print_endline "reenc !")
    | [] -> ()
    | w :: _ -> print_endline ("? " ^ w))
