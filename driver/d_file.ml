(* runner for the file-server model (C20); same script language as harness/h_file.c.
   `cfg ... fixd=<0|1>` selects the repaired / pinned variant of the model (the C harness ignores that key). *)
open Model_file
open Zutil
let kv line key dflt =
  let pat = " " ^ key ^ "=" in
  match Str.search_forward (Str.regexp_string pat) line 0 with
  | exception Not_found -> dflt
  | i -> let j = i + String.length pat in
         let k = ref j in
         while !k < String.length line && line.[!k] <> ' ' do incr k done;
         String.sub line j (!k - j)
let kvi line key dflt = match kv line key "" with "" -> dflt | s -> int_of_string s
let cot = ref 2 and ca = ref 2 and ioa = ref 3 and maxa = ref 249 and timeout = ref 3000 and fixd = ref true
let cfg () = { f_alp = { cot_sz = zi !cot; ca_sz = zi !ca; ioa_sz = zi !ioa }; f_max = zi !maxa; f_timeout = zi !timeout; f_fixd = !fixd }
let env = ref { e_present = false; e_ca = Z0; e_ioa = Z0; e_nof = Z0; e_secs = []; e_recv = zi 1 }
let s = ref fs0
let now = ref 1000000
let reset_all () = cot := 2; ca := 2; ioa := 3; maxa := 249; timeout := 3000; now := 1000000; s := fs0;
  env := { e_present = false; e_ca = Z0; e_ioa = Z0; e_nof = Z0; e_secs = []; e_recv = zi 1 }
let stname = function Idle -> "IDLE" | WaitFileCall -> "WAIT_FILE_CALL" | WaitSectionCall -> "WAIT_SECTION_CALL" | Transmit -> "TRANSMIT"
  | WaitSectionAck -> "WAIT_SECTION_ACK" | WaitFileAck -> "WAIT_FILE_ACK" | SendAbort -> "SEND_ABORT" | Completed -> "COMPLETED"
  | WaitSectionReady -> "WAIT_SECTION_READY" | Receive -> "RECEIVE"
let dump () =
  let x = !s in
  Printf.printf "st %s nos=%d off=%d size=%d schs=%d fchs=%d sel=%d rcv=%d\n" (stname x.st) (iz x.nos) (iz x.off) (iz x.size) (iz x.schs) (iz x.fchs)
    (if x.sel then 1 else 0) (if x.rcv then 1 else 0)
let print_obs o =
  let p = (cfg ()).f_alp in
  match o with
  | OSend (c, oa, ca, ioa, nof, t) -> Printf.printf "tx c%d %s\n" (iz c) (hex_of_bytes (enc_send p oa ca ioa nof t))
  | OMirror (c, a) -> Printf.printf "tx c%d %s\n" (iz c) (hex_of_bytes (unparse a))
  | CGetFile (ca, ioa, nof, r) -> Printf.printf "cb getfile ca=%d ioa=%d nof=%d -> %d\n" (iz ca) (iz ioa) (iz nof) (iz r)
  | CFileSize v -> Printf.printf "cb filesize -> %d\n" (iz v)
  | CSectionSize (n, v) -> Printf.printf "cb sectionsize %d -> %d\n" (iz n) (iz v)
  | CSegData (sec, o, n) -> Printf.printf "cb segdata sec=%d off=%d size=%d\n" (iz sec) (iz o) (iz n)
  | CComplete ok -> Printf.printf "cb complete %d\n" (if ok then 1 else 0)
  | CFileReady (ca, ioa, nof, lof) -> Printf.printf "cb fileready ca=%d ioa=%d nof=%d lof=%d mode=%d\n" (iz ca) (iz ioa) (iz nof) (iz lof) (iz !env.e_recv)
  | CSegment (n, o, d) -> Printf.printf "cb segment nos=%d off=%d size=%d data=%s\n" (iz n) (iz o) (List.length d) (hex_of_bytes d)
  | CFinished code -> Printf.printf "cb finished %d\n" (iz code)
let content seed sidx o = zi ((seed * 131 + sidx * 31 + o * 7 + (o lsr 8)) land 255)
let dead = ref false
let () =
  iter_lines (fun line ->
    match words line with
    | "---" :: _ -> reset_all (); dead := false; print_endline line
    | _ when !dead -> ()
    | "cfg" :: _ ->
        cot := kvi line "cot" !cot; ca := kvi line "ca" !ca; ioa := kvi line "ioa" !ioa; maxa := kvi line "max" !maxa; timeout := kvi line "timeout" !timeout;
        fixd := (kvi line "fixd" (if !fixd then 1 else 0)) <> 0;
        s := fs0
    | "file" :: _ ->
        let seed = kvi line "seed" 1 in
        let secs = match kv line "secs" "" with
          | "" | "-" -> []
          | str -> List.map int_of_string (List.filter (fun x -> x <> "") (String.split_on_char ',' str)) in
        env := { !env with e_present = true; e_ca = zi (kvi line "ca" 1); e_ioa = zi (kvi line "ioa" 30000); e_nof = zi (kvi line "nof" 1);
                 e_secs = List.mapi (fun si len -> List.init len (fun o -> content seed si o)) secs }
    | ["recv"; m] -> env := { !env with e_recv = zi (int_of_string m) }
    | [("rx" | "rx2") as cmd; hex] ->
        let conn = if cmd = "rx2" then 1 else 0 in
        (match parse (cfg ()).f_alp (bytes_of_hex hex) with
         | None -> print_endline "res SHORT"; dump ()
         | Some a ->
           (match handle_asdu (cfg ()) !env (zi !now) (zi conn) a !s with
            | HFault -> print_endline "fault"; dead := true
            | HOk (s', o, r) ->
                s := s'; List.iter print_obs o;
                print_endline (match r with Handled -> "res HANDLED" | NotHandled -> "res NOT_HANDLED" | Invalid -> "res INVALID");
                dump ()))
    | ("run" | "run2") as cmd :: rest ->
        let conn = if cmd = "run2" then 1 else 0 in
        let n = match rest with [x] -> int_of_string x | _ -> 1 in
        for _ = 1 to n do
          let (s', o) = run_task (cfg ()) !env (zi !now) (zi conn) !s in
          s := s'; List.iter print_obs o
        done;
        dump ()
    | ["adv"; ms] -> now := !now + int_of_string ms
    | ["clock"; ms] -> now := int_of_string ms
    | [] -> ()
    | _ -> print_endline ("? " ^ line))
