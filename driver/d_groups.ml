(* runner for Cs104/Groups.v
   mode <0|1|2> ; group <ip,ip,...|-> ; try <peer> maxopen=<n> open=<n> reqret=<0|1> free=<0|1>  -> admit <gi|none>
   act <i> <used:grp:st> <used:grp:st> ...   -> states after STARTDT on slot i
   ip <string>  -> parsed address *)
open Model_groups
open Zutil
let mode = ref SINGLE
let groups : group list ref = ref []
let l2z (s : string) : z list = List.init (String.length s) (fun i -> zi (Char.code s.[i]))
let show_ip = function
  | IP4 b -> "4:" ^ String.concat "." (List.map (function Some v -> string_of_int (iz v) | None -> "?") b)
  | IP6 b -> "6:" ^ String.concat "." (List.map (function Some v -> string_of_int (iz v) | None -> "?") b)
let kv tok = match String.split_on_char '=' tok with [_; v] -> int_of_string v | _ -> 0
let () =
  iter_lines (fun line ->
    match words line with
    | "---" :: _ -> print_endline line; mode := SINGLE; groups := []
    | ["mode"; m] -> mode := (match m with "0" -> SINGLE | "1" -> CONN_IS_GROUP | _ -> MULTI)
    | ["group"; ips] ->
        (* the one-field record `group` is extracted as its field type *)
        let g : group = if ips = "-" then None
                else Some (List.map (fun s -> parse_ip (l2z s)) (String.split_on_char ',' ips)) in
        groups := !groups @ [g]
    | ["try"; peer; mo; oc; rr; fr] ->
        (match admission !mode !groups (zi (kv mo)) (zi (kv oc)) (kv rr <> 0) (kv fr <> 0) (l2z peer) with
         | Some gi -> Printf.printf "admit %d\n" (iz gi)
         | None -> print_endline "admit none")
    | "act" :: i :: slots ->
        let sl = List.map (fun t -> match String.split_on_char ':' t with
                           | [u; g; s] -> { s_used = (u = "1"); s_group = zi (int_of_string g); s_st = zi (int_of_string s) }
                           | _ -> { s_used = false; s_group = Z0; s_st = Z0 }) slots in
        let r = activate !mode sl (nat_of_int (int_of_string i)) in
        print_endline ("act " ^ String.concat " " (List.map (fun x -> Printf.sprintf "%d:%d:%d" (if x.s_used then 1 else 0) (iz x.s_group) (iz x.s_st)) r))
    | ["ip"; s] -> print_endline (show_ip (parse_ip (peer_ip (l2z s))))
    | [] -> ()
    | _ -> print_endline ("? " ^ line))
