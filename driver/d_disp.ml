(* runner for the dispatch models (C09); same script language as harness/h_disp.c.
   the role comes from the script: `cfg role=<s104|s101|s101o|c104|m101> ...` (the C harnesses ignore that key) *)
open Model_disp
open Zutil
let role_r = ref "s104"
let p = ref { cot_sz = zi 2; ca_sz = zi 2; ioa_sz = zi 3 }
let oa = ref 0
let kv line key dflt =
  let pat = " " ^ key ^ "=" in
  match Str.search_forward (Str.regexp_string pat) line 0 with
  | exception Not_found -> dflt
  | i -> let j = i + String.length pat in
         let k = ref j in
         while !k < String.length line && line.[!k] <> ' ' do incr k done;
         String.sub line j (!k - j)
let kvi line key dflt = match kv line key "" with "" -> dflt | s -> int_of_string s
let hset mask rmask bit = if mask land bit <> 0 then Some (rmask land bit <> 0) else None
let hname = function HInterrogation -> "interrogation" | HCounter -> "counter" | HRead -> "read" | HClock -> "clock"
                     | HReset -> "reset" | HDelay -> "delay" | HAsdu -> "asdu"
let print_action = function
  | Call (h, arg, a) ->
      let ah = hex_of_bytes (unparse a) in
      (match h with
       | HInterrogation -> Printf.printf "cb interrogation qoi=%d asdu=%s\n" (iz (List.hd arg)) ah
       | HCounter -> Printf.printf "cb counter qcc=%d asdu=%s\n" (iz (List.hd arg)) ah
       | HRead -> Printf.printf "cb read ioa=%d asdu=%s\n" (iz (List.hd arg)) ah
       | HClock -> Printf.printf "cb clock time=%s asdu=%s\n" (hex_of_bytes arg) ah
       | HReset -> Printf.printf "cb reset qrp=%d asdu=%s\n" (iz (List.hd arg)) ah
       | HDelay -> Printf.printf "cb delay delay=%d asdu=%s\n" (iz (List.hd arg)) ah
       | HAsdu -> Printf.printf "cb asdu asdu=%s\n" ah)
  | Respond a -> Printf.printf "tx %s\n" (hex_of_bytes (unparse a))
  | CloseConn -> ()
let () =
  iter_lines (fun line ->
    match words line with
    | "---" :: _ -> p := { cot_sz = zi 2; ca_sz = zi 2; ioa_sz = zi 3 }; oa := 0; print_endline line
    | "cfg" :: _ ->
        p := { cot_sz = zi (kvi line "cot" (iz !p.cot_sz)); ca_sz = zi (kvi line "ca" (iz !p.ca_sz)); ioa_sz = zi (kvi line "ioa" (iz !p.ioa_sz)) };
        oa := kvi line "oa" !oa;
        role_r := kv line "role" !role_r
    | "asdu" :: hex :: _ ->
        let h = kvi line "h" 0 and r = kvi line "r" 0 in
        let hs = { hs_ic = hset h r 1; hs_ci = hset h r 2; hs_rd = hset h r 4; hs_cs = hset h r 8; hs_rp = hset h r 16; hs_cd = hset h r 32; hs_asdu = hset h r 64 } in
        (match parse !p (bytes_of_hex hex) with
         | None -> print_endline "ret short"
         | Some a ->
             let acts = if !role_r = "s104" then dispatch104 !p hs a else if !role_r = "s101o" then dispatch101_orig !p hs a else dispatch101 !p hs a in
             List.iter print_action acts;
             if !role_r = "s104" then Printf.printf "ret %d\n" (if List.exists (fun x -> x = CloseConn) acts then 0 else 1)
             else print_endline "ret -")
    | "build" :: what :: _ ->
        let c = zi (kvi line "cot" 6) and ca = zi (kvi line "ca" 1) and q = zi (kvi line "q" 0) and ioa = zi (kvi line "ioa" 0)
        and d = zi (kvi line "d" 0) and tsc = zi (kvi line "tsc" 0) in
        let t = let b = bytes_of_hex (kv line "t" "-") in b @ List.init (max 0 (7 - List.length b)) (fun _ -> Z0) in
        let o = zi !oa in
        let bs = match what with
          | "ic" -> Some (build_ic !p o c ca q) | "ci" -> Some (build_ci !p o c ca q) | "rd" -> Some (build_rd !p o ca ioa)
          | "cs" -> Some (build_cs !p o ca t) | "ts" -> Some (if !role_r = "c104" then build_ts104 !p o ca else build_ts101 !p o ca)
          | "tsta" -> if !role_r = "c104" then Some (build_tsta !p o ca tsc t) else None
          | "rp" -> Some (build_rp !p o c ca q) | "cd" -> Some (build_cd !p o c ca d) | _ -> None in
        (match bs with
         | None -> print_endline ("? " ^ line)
         | Some bs -> Printf.printf "built %s ret=1\n" (hex_of_bytes bs))
    | [] -> ()
    | _ -> print_endline ("? " ^ line))
