(* runner for Cs104/MsgQueue.v; script language of harness/h_unit104.c (mq / hp commands) *)
open Model_queue
open Zutil
let mq = ref (mq_new (zi 2))
let hq = ref (hp_new (zi 2))
let aid = ref 0
let outst : (int * int) list ref = ref []
let mk_asdu size id =
  let pl = List.init (max 0 (size - 6)) (fun i -> if i = 0 then id land 255 else if i = 1 then (id lsr 8) land 255 else 0x5a) in
  List.map zi ([30; 1; 3; 0; 1; 0] @ pl)
let pid (a : z list) = (try iz (List.nth a 6) with _ -> 0) lor ((try iz (List.nth a 7) with _ -> 0) lsl 8)
let b2i b = if b then 1 else 0
let mq_dump_of (mq : mqs ref) =
  Printf.printf "mq n=%d first=%d last=%d lib=%d :" (iz !mq.cnt) (iz !mq.first) (iz !mq.last) (iz !mq.lib);
  (match mq_entries !mq with
   | Ok l -> List.iter (fun (o, e) -> Printf.printf " %d:%d:%d:%d@%d" (iz e.e_id) (iz e.e_st) (iz e.e_sz) (pid e.e_asdu) (iz o)) l
   | Fault w -> Printf.printf " FAULT@%d" (iz w));
  print_newline ()
let mq_dump () = mq_dump_of mq
let hq_dump () = Printf.printf "hp n=%d first=%d last=%d lib=%d\n" (iz !hq.hcnt) (iz !hq.hfirst) (iz !hq.hlast) (iz !hq.hlib)
let faulted = ref false
let sg = ref { c_k = zi 12; c_w = zi 8; c_t1 = zi 15; c_t2 = zi 10; c_t3 = zi 20; c_interrog = false; c_hret = false; c_burst = zi 0;
               c_bsize = zi 0; c_term = false; c_reqret = true }
let srs = ref { r_c = new_conn !sg (zi 0) (zi 0); r_hq = hp_new (zi 2); r_q = mq_new (zi 2); r_t = [] }
let () =
  iter_lines (fun line ->
    match words line with
    | "---" :: _ -> print_endline line; faulted := false
    | "mq" :: sub :: rest ->
        let x = (match rest with a :: _ -> int_of_string a | [] -> 0) in
        let y = (match rest with _ :: b :: _ -> int_of_string b | _ -> 0) in
        (match sub with
         | "new" -> mq := mq_new (zi x); aid := 0; outst := []
         | "confirmoldest" ->
             (match !outst with
              | (o, id) :: rest ->
                  Printf.printf "mqconfirm at=%d id=%d\n" o id; outst := rest;
                  (match mq_confirm !mq (zi o) (zi id) with Ok q -> mq := q | Fault w -> Printf.printf "FAULT confirm %d\n" (iz w))
              | [] -> print_endline "mqconfirm none")
         | "confirmnewest" ->
             (match List.rev !outst with
              | (o, id) :: rest ->
                  Printf.printf "mqconfirm at=%d id=%d\n" o id; outst := List.rev rest;
                  (match mq_confirm !mq (zi o) (zi id) with Ok q -> mq := q | Fault w -> Printf.printf "FAULT confirm %d\n" (iz w))
              | [] -> print_endline "mqconfirm none")
         | "enq" -> (match mq_enqueue !mq (mk_asdu x !aid) with Ok q -> mq := q | Fault w -> Printf.printf "FAULT enq %d\n" (iz w)); incr aid
         | "next" -> (match mq_next !mq with
                      | Ok (Some (o, e), q) -> mq := q; outst := !outst @ [(iz o, iz e.e_id)]; Printf.printf "mqnext id=%d size=%d at=%d pid=%d\n" (iz e.e_id) (iz e.e_sz) (iz o) (pid e.e_asdu)
                      | Ok (None, _) -> print_endline "mqnext none"
                      | Fault w -> Printf.printf "FAULT next %d\n" (iz w))
         | "confirm" -> (match mq_confirm !mq (zi x) (zi y) with Ok q -> mq := q | Fault w -> Printf.printf "FAULT confirm %d\n" (iz w))
         | "unconf" -> (match mq_has_unconfirmed !mq with Ok b -> Printf.printf "mqunconf %d\n" (b2i b) | Fault w -> Printf.printf "FAULT unconf %d\n" (iz w))
         | "avail" -> (match mq_available !mq with Ok b -> Printf.printf "mqavail %d\n" (b2i b) | Fault w -> Printf.printf "FAULT avail %d\n" (iz w))
         | "resetwait" -> (match mq_reset_waiting !mq with Ok q -> mq := q | Fault w -> Printf.printf "FAULT resetwait %d\n" (iz w)); outst := []
         | "release" -> mq := mq_release !mq; outst := []
         | _ -> ());
        mq_dump ()
    | "hp" :: sub :: rest ->
        let x = (match rest with a :: _ -> int_of_string a | [] -> 0) in
        (match sub with
         | "new" -> hq := hp_new (zi x); aid := 0
         | "enq" -> (match hp_enqueue !hq (mk_asdu x !aid) with
                     | Ok (b, q) -> hq := q; Printf.printf "hpenq %d\n" (b2i b)
                     | Fault w -> Printf.printf "FAULT hpenq %d\n" (iz w)); incr aid
         | "next" -> (match hp_next !hq with
                      | Ok (Some a, q) -> hq := q; Printf.printf "hpnext size=%d pid=%d\n" (List.length a) (pid a)
                      | Ok (None, _) -> print_endline "hpnext none"
                      | Fault w -> Printf.printf "FAULT hpnext %d\n" (iz w))
         | "full" -> (match hp_full !hq with Ok b -> Printf.printf "hpfull %d\n" (b2i b) | Fault w -> Printf.printf "FAULT hpfull %d\n" (iz w))
         | "reset" -> hq := hp_reset !hq
         | _ -> ());
        hq_dump ()
    | "sch" :: sub :: rest ->
        (* the scheduler with the literal rings: every command is one operation of the history machine `rstep` of Cs104/SchedHist.v
           (sendASDUInternal / sendWaitingASDUs / release loop / enqueue / connection end on one connection) *)
        let x = (match rest with a :: _ -> int_of_string a | [] -> 0) in
        let y = (match rest with _ :: b :: _ -> int_of_string b | _ -> 0) in
        let zq = (match rest with _ :: _ :: c :: _ -> int_of_string c | _ -> 2) in
        let o = ref [] in
        let step op tag =
          (match rstep !sg (zi 0) !srs op with
           | Ok (r', (ob, ret)) ->
               srs := r'; o := ob;
               (match tag, ret with
                | "resp", Some b -> Printf.printf "schresp %d\n" (b2i b)
                | "drain", _ -> print_endline "schdrain"
                | _ -> ())
           | Fault w -> Printf.printf "FAULT sch%s %d\n" tag (iz w)) in
        (match sub with
         | "new" ->
             sg := { c_k = zi x; c_w = zi 8; c_t1 = zi 15; c_t2 = zi 10; c_t3 = zi 20; c_interrog = false; c_hret = false; c_burst = zi 0;
                     c_bsize = zi 0; c_term = false; c_reqret = true };
             srs := { r_c = { (new_conn !sg (zi 0) (zi 0)) with st = zi 1; running = true }; r_hq = hp_new (zi y); r_q = mq_new (zi zq); r_t = [] };
             aid := 0
         | "ev" -> step (SEnq (mk_asdu x !aid)) "ev"; incr aid
         | "rearm" -> step SEnd "rearm"
         | "resp" -> step (SResp (mk_asdu x !aid)) "resp"; incr aid
         | "drain" -> step SRound "drain"
         | "ack" -> step (SAck (nat_of_int (min x (List.length !srs.r_c.kbuf)))) "ack"
         | "wmode" -> step (SWmode (zi x)) "wmode"
         | "stop" -> step (SState (zi 0)) "stop"
         | _ -> ());
        print_string "sch tx=";
        List.iter (fun ob -> match ob with
                             | OTx (_, b) -> if List.length b >= 14 then Printf.printf "%d," ((iz (List.nth b 12)) lor ((iz (List.nth b 13)) lsl 8)) else print_string "u,"
                             | _ -> ()) !o;
        let sc = !srs.r_c and sq = !srs.r_hq in
        Printf.printf " k=%d run=%d hp n=%d first=%d last=%d lib=%d\n" (List.length sc.kbuf) (b2i sc.running) (iz sq.hcnt) (iz sq.hfirst) (iz sq.hlast) (iz sq.hlib);
        mq_dump_of (ref !srs.r_q)
    | [] -> ()
    | _ -> ())
