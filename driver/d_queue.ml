(* runner for Cs104/MsgQueue.v; script language of harness/h_unit104.c (mq / hp commands) *)
open Model_queue
open Zutil
let mq = ref (mq_new (zi 2))
let hq = ref (hp_new (zi 2))
let aid = ref 0
let outst : (int * int) list ref = ref []
let mk_asdu size id =
  let pl = List.init (max 0 (size - 6)) (fun i -> if i = 0 then id land 255 else if i = 1 then (id lsr 8) land 255 else 0x5a) in
  List.map zi ([30; 1; 3; 0; 1; 0] @ pl)
let pid (a : z list) = (try iz (List.nth a 6) with _ -> 0) lor ((try iz (List.nth a 7) with _ -> 0) lsl 8)
let b2i b = if b then 1 else 0
let mq_dump_of (mq : mqs ref) =
  Printf.printf "mq n=%d first=%d last=%d lib=%d :" (iz !mq.cnt) (iz !mq.first) (iz !mq.last) (iz !mq.lib);
  (match mq_entries !mq with
   | Ok l -> List.iter (fun (o, e) -> Printf.printf " %d:%d:%d:%d@%d" (iz e.e_id) (iz e.e_st) (iz e.e_sz) (pid e.e_asdu) (iz o)) l
   | Fault w -> Printf.printf " FAULT@%d" (iz w));
  print_newline ()
let mq_dump () = mq_dump_of mq
let hq_dump () = Printf.printf "hp n=%d first=%d last=%d lib=%d\n" (iz !hq.hcnt) (iz !hq.hfirst) (iz !hq.hlast) (iz !hq.hlib)
let faulted = ref false
let sg = ref { c_k = zi 12; c_w = zi 8; c_t1 = zi 15; c_t2 = zi 10; c_t3 = zi 20; c_interrog = false; c_hret = false; c_burst = zi 0;
               c_bsize = zi 0; c_term = false; c_reqret = true }
let sc = ref (new_conn !sg (zi 0) (zi 0))
let sq = ref (hp_new (zi 2))
let smq = ref (mq_new (zi 2))
let stab : (z * z) list ref = ref []
let () =
  iter_lines (fun line ->
    match words line with
    | "---" :: _ -> print_endline line; faulted := false
    | "mq" :: sub :: rest ->
        let x = (match rest with a :: _ -> int_of_string a | [] -> 0) in
        let y = (match rest with _ :: b :: _ -> int_of_string b | _ -> 0) in
        (match sub with
         | "new" -> mq := mq_new (zi x); aid := 0; outst := []
         | "confirmoldest" ->
             (match !outst with
              | (o, id) :: rest ->
                  Printf.printf "mqconfirm at=%d id=%d\n" o id; outst := rest;
                  (match mq_confirm !mq (zi o) (zi id) with Ok q -> mq := q | Fault w -> Printf.printf "FAULT confirm %d\n" (iz w))
              | [] -> print_endline "mqconfirm none")
         | "confirmnewest" ->
             (match List.rev !outst with
              | (o, id) :: rest ->
                  Printf.printf "mqconfirm at=%d id=%d\n" o id; outst := List.rev rest;
                  (match mq_confirm !mq (zi o) (zi id) with Ok q -> mq := q | Fault w -> Printf.printf "FAULT confirm %d\n" (iz w))
              | [] -> print_endline "mqconfirm none")
         | "enq" -> (match mq_enqueue !mq (mk_asdu x !aid) with Ok q -> mq := q | Fault w -> Printf.printf "FAULT enq %d\n" (iz w)); incr aid
         | "next" -> (match mq_next !mq with
                      | Ok (Some (o, e), q) -> mq := q; outst := !outst @ [(iz o, iz e.e_id)]; Printf.printf "mqnext id=%d size=%d at=%d pid=%d\n" (iz e.e_id) (iz e.e_sz) (iz o) (pid e.e_asdu)
                      | Ok (None, _) -> print_endline "mqnext none"
                      | Fault w -> Printf.printf "FAULT next %d\n" (iz w))
         | "confirm" -> (match mq_confirm !mq (zi x) (zi y) with Ok q -> mq := q | Fault w -> Printf.printf "FAULT confirm %d\n" (iz w))
         | "unconf" -> (match mq_has_unconfirmed !mq with Ok b -> Printf.printf "mqunconf %d\n" (b2i b) | Fault w -> Printf.printf "FAULT unconf %d\n" (iz w))
         | "avail" -> (match mq_available !mq with Ok b -> Printf.printf "mqavail %d\n" (b2i b) | Fault w -> Printf.printf "FAULT avail %d\n" (iz w))
         | "resetwait" -> (match mq_reset_waiting !mq with Ok q -> mq := q | Fault w -> Printf.printf "FAULT resetwait %d\n" (iz w)); outst := []
         | "release" -> mq := mq_release !mq; outst := []
         | _ -> ());
        mq_dump ()
    | "hp" :: sub :: rest ->
        let x = (match rest with a :: _ -> int_of_string a | [] -> 0) in
        (match sub with
         | "new" -> hq := hp_new (zi x); aid := 0
         | "enq" -> (match hp_enqueue !hq (mk_asdu x !aid) with
                     | Ok (b, q) -> hq := q; Printf.printf "hpenq %d\n" (b2i b)
                     | Fault w -> Printf.printf "FAULT hpenq %d\n" (iz w)); incr aid
         | "next" -> (match hp_next !hq with
                      | Ok (Some a, q) -> hq := q; Printf.printf "hpnext size=%d pid=%d\n" (List.length a) (pid a)
                      | Ok (None, _) -> print_endline "hpnext none"
                      | Fault w -> Printf.printf "FAULT hpnext %d\n" (iz w))
         | "full" -> (match hp_full !hq with Ok b -> Printf.printf "hpfull %d\n" (b2i b) | Fault w -> Printf.printf "FAULT hpfull %d\n" (iz w))
         | "reset" -> hq := hp_reset !hq
         | _ -> ());
        hq_dump ()
    | "sch" :: sub :: rest ->
        (* the scheduler with the literal ring (Cs104/SchedRing.v): sendASDUInternal / sendWaitingASDUs on one connection *)
        let x = (match rest with a :: _ -> int_of_string a | [] -> 0) in
        let y = (match rest with _ :: b :: _ -> int_of_string b | _ -> 0) in
        let zq = (match rest with _ :: _ :: c :: _ -> int_of_string c | _ -> 2) in
        let o = ref [] in
        (match sub with
         | "new" ->
             sg := { c_k = zi x; c_w = zi 8; c_t1 = zi 15; c_t2 = zi 10; c_t3 = zi 20; c_interrog = false; c_hret = false; c_burst = zi 0;
                     c_bsize = zi 0; c_term = false; c_reqret = true };
             sc := { (new_conn !sg (zi 0) (zi 0)) with st = zi 1; running = true };
             sq := hp_new (zi y); smq := mq_new (zi zq); stab := []; aid := 0
         | "ev" ->
             (match mq_enqueue !smq (mk_asdu x !aid) with Ok q -> smq := q | Fault w -> Printf.printf "FAULT schev %d\n" (iz w)); incr aid
         | "rearm" ->
             (match mq_reset_waiting !smq with Ok q -> smq := q | Fault w -> Printf.printf "FAULT schrearm %d\n" (iz w));
             sc := { !sc with kbuf = [] }
         | "resp" ->
             (match send_asdu_internal_r !sg (zi 0) !sc !sq (mk_asdu x !aid) with
              | Ok (((c', q'), r), o') -> sc := c'; sq := q'; o := o'; Printf.printf "schresp %d\n" (b2i r)
              | Fault w -> Printf.printf "FAULT schresp %d\n" (iz w));
             incr aid
         | "drain" ->
             (match send_waiting_rr !sg (zi 0) !sc !sq !smq !stab with
              | Ok ((((c', hq'), q'), t'), o') -> sc := c'; sq := hq'; smq := q'; stab := t'; o := o'; print_endline "schdrain"
              | Fault w -> Printf.printf "FAULT schdrain %d\n" (iz w))
         | "ack" ->
             (* the release loop of checkSequenceNumber for the x oldest entries of the k-buffer (confirms their event entries in the ring) *)
             let x = min x (List.length !sc.kbuf) in
             (match release_r (nat_of_int x) !sc.kbuf !stab !smq with
              | Ok (kb, q') -> sc := { !sc with kbuf = kb }; smq := q'
              | Fault w -> Printf.printf "FAULT schack %d\n" (iz w))
         | "wmode" -> sc := { !sc with wmode = zi x }
         | "stop" -> sc := { !sc with st = zi 0 }
         | _ -> ());
        print_string "sch tx=";
        List.iter (fun ob -> match ob with
                             | OTx (_, b) -> if List.length b >= 14 then Printf.printf "%d," ((iz (List.nth b 12)) lor ((iz (List.nth b 13)) lsl 8)) else print_string "u,"
                             | _ -> ()) !o;
        Printf.printf " k=%d run=%d hp n=%d first=%d last=%d lib=%d\n" (List.length !sc.kbuf) (b2i !sc.running) (iz !sq.hcnt) (iz !sq.hfirst) (iz !sq.hlast) (iz !sq.hlib);
        mq_dump_of smq
    | [] -> ()
    | _ -> ())
