(* runner for the CS101 link-layer models; same script language and trace lines as harness/h_ll.c
   (cfg kind=...) and harness/h_cs101.c (cfg mode=...) *)
open Model_link
open Zutil

let kvs line = List.filter_map (fun w -> match String.index_opt w '=' with
  | Some i -> Some (String.sub w 0 i, String.sub w (i + 1) (String.length w - i - 1)) | None -> None) (words line)
let kv l k d = try int_of_string (List.assoc k l) with _ -> d
let kvstr l k d = try List.assoc k l with _ -> d
let b2i b = if b then 1 else 0
let variant_of s = let h c = String.contains s c in
  { fa = h 'a'; fb = h 'b'; fc_ = h 'c'; fd = h 'd'; fe = h 'e'; ff = h 'f'; fg = h 'g'; fh = h 'h'; fi = h 'i' }

let print_out o = match o with
  | ORx m -> Printf.printf "rxmsg %s\n" (hex_of_bytes m)
  | OTx f -> Printf.printf "tx %s\n" (hex_of_bytes f)
  | OInd (bc, d) -> Printf.printf "ind bc=%d %s\n" (b2i bc) (hex_of_bytes d)
  | ORcu b -> Printf.printf "rcu %d\n" (b2i b)
  | OLs (a, s) -> Printf.printf "ls a=%d %d\n" (iz a) (iz s)
  | OUd (a, d) -> Printf.printf "ud a=%d %s\n" (iz a) (hex_of_bytes d)
  | OAcd a -> Printf.printf "acd a=%d\n" (iz a)

(* ------------------------------------------------------------------ single station (h_ll) *)
type station = NoSt | Su of su | Bal of bal | Up of pu
let st = ref NoSt
let v = ref (variant_of "")
let c = ref { alen = zi 1; single_ack = false; t_ack = zi 200; t_rep = zi 1000; t_ls = zi 5000 }
let now = ref 1000
let rx = ref ([] : z list)
let slaves = ref ([] : int list)

let dump () = match !st with
  | NoSt -> ()
  | Su s -> Printf.printf "st us ls=%d efcb=%d uds=%d\n" (iz s.su_ls) (b2i s.su_efcb) (iz s.su_udsz)
  | Bal b -> let p = b.b_p in
      Printf.printf "st bal ls=%d ps=%d w=%d nfcb=%d test=%d efcb=%d\n" (iz p.pb_ls) (iz p.pb_ps) (b2i p.pb_wait) (b2i p.pb_nfcb) (b2i p.pb_test) (b2i b.b_s)
  | Up p ->
      Printf.printf "st up cur=%d idx=%d bc=%d" (iz p.pu_cur) (iz p.pu_idx) (match p.pu_bc with Some _ -> 1 | None -> 0);
      List.iter (fun s -> Printf.printf " [a=%d ls=%d ps=%d w=%d nfcb=%d has=%d r1=%d r2=%d test=%d]" (iz s.sc_addr) (iz s.sc_ls) (iz s.sc_ps)
        (b2i s.sc_wait) (b2i s.sc_nfcb) (b2i s.sc_has) (b2i s.sc_r1) (b2i s.sc_r2) (b2i s.sc_test)) p.pu_slaves;
      print_newline ()

let run_once () = match !st with
  | NoSt -> ()
  | Su s -> let ((s', rest), o) = su_run !v !c (zi !now) s !rx in st := Su s'; rx := rest; List.iter print_out o
  | Bal b -> let ((b', rest), o) = bal_run !v !c (zi !now) b !rx in st := Bal b'; rx := rest; List.iter print_out o
  | Up p -> let ((p', rest), o) = pu_run !v !c (zi !now) p !rx in st := Up p'; rx := rest; List.iter print_out o

let ll_cfg line =
  let l = kvs line in
  v := variant_of (kvstr l "fix" "");
  c := { alen = zi (kv l "al" 1); single_ack = kv l "sc" 0 <> 0; t_ack = zi (kv l "tack" 200); t_rep = zi (kv l "trep" 1000); t_ls = zi (kv l "tls" 5000) };
  now := kv l "t" 1000; rx := [];
  let addr = kv l "addr" 1 in
  (match kvstr l "kind" "us" with
   | "us" -> st := Su (su_init !v (zi addr) (zi (kv l "idle" 500)))
   | "bal" -> st := Bal (bal_init (zi addr) (zi (kv l "other" 2)) (zi (kv l "idle" 5000)) (kv l "dir" 0 <> 0) (kv l "indret" 1 <> 0))
   | _ ->
       let sl = List.filter (fun x -> x <> "") (String.split_on_char ',' (kvstr l "slaves" "")) in
       slaves := List.map int_of_string sl;
       st := Up (pu_init (List.map (fun a -> zi a) !slaves)));
  dump ()

let last_word line = match List.rev (words line) with w :: _ -> w | [] -> ""

let ll_cmd cmd line =
  let l = kvs line in
  let addr = kv l "a" (match !slaves with a :: _ -> a | [] -> 0) in
  let hex () = bytes_of_hex (last_word line) in
  let ok = ref true in
  (match cmd, !st with
   | "feed", _ -> rx := !rx @ hex ()
   | "rx", _ -> rx := !rx @ hex (); run_once ()
   | "run", _ -> run_once ()
   | "tick", _ -> now := !now + int_of_string (last_word line); run_once ()
   | "enq1", Su s -> st := Su (su_with_q s (s.su_q1 @ [hex ()]) s.su_q2)
   | "enq2", Su s -> st := Su (su_with_q s s.su_q1 (s.su_q2 @ [hex ()]))
   | "enq1", Bal b | "send", Bal b -> st := Bal (bal_with b b.b_p b.b_s (b.b_q @ [hex ()]))
   | "enq1", _ | "enq2", _ -> ()
   | "send", Up p -> let (p', r) = pu_send_confirmed p (zi addr) (hex ()) in st := Up p'; Printf.printf "ret %d\n" (b2i r)
   | "send", _ -> ()
   | "bcast", Up p -> let (p', r) = pu_send_broadcast p (hex ()) in st := Up p'; Printf.printf "ret %d\n" (b2i r)
   | "poll1", Up p -> let (p', r) = pu_request p (zi addr) true in st := Up p'; Printf.printf "ret %d\n" (b2i r)
   | "poll2", Up p -> let (p', r) = pu_request p (zi addr) false in st := Up p'; Printf.printf "ret %d\n" (b2i r)
   | "test", Up p -> st := Up (pu_test p (zi addr))
   | "test", Bal b -> st := Bal (bal_with b (pb_with_test b.b_p true) b.b_s b.b_q)
   | "test", _ -> ()
   | _ -> ok := false; print_endline ("? " ^ line));
  if !ok then dump ()

(* ------------------------------------------------------------------ composed line (h_cs101): master x channel x slaves.
   The stations are the extracted step functions; the composition (who hears whom, loss/duplication by global
   frame index, the CS101 queues = the literal ring model cq_*, the ASDU-header length test of the CS101 layers) is here. *)
(* the slave queues and the balanced master queue are the literal ring model of cs101_queue.c (Link/Cs101Queue.v) *)
type nslave = { mutable sst : station; mutable srx : z list; mutable sq1 : cq; mutable sq2 : cq }
let net_on = ref false
let balanced = ref false
let mst = ref NoSt
let mrx = ref ([] : z list)
let mq = ref (cq_init (zi 10))
let nsl = ref ([||] : nslave array)
let q1size = ref 10 and q2size = ref 10 and mqsize = ref 10
let frame_no = ref 0
let lose = Hashtbl.create 64 and dupf = Hashtbl.create 64
let lose_next : (int, unit) Hashtbl.t = Hashtbl.create 4
let saddr i = if iz !c.alen = 2 then 0x100 * (i + 1) + 11 + i else 11 + i
let asdu_hdr = 6

let net_cfg line =
  let l = kvs line in
  net_on := true; st := NoSt;
  v := variant_of (kvstr l "fix" "");
  balanced := kvstr l "mode" "unb" = "bal";
  c := { alen = zi (kv l "al" 1); single_ack = kv l "sc" 0 <> 0; t_ack = zi (kv l "tack" 200); t_rep = zi (kv l "trep" 1000); t_ls = zi (kv l "tls" 5000) };
  now := kv l "t" 1000; mrx := []; frame_no := 0; Hashtbl.reset lose; Hashtbl.reset dupf; Hashtbl.reset lose_next;
  q1size := kv l "q1" 10; q2size := kv l "q2" 10; mqsize := kv l "mq" 10; mq := cq_init (zi !mqsize);
  let n = if !balanced then 1 else min 3 (kv l "slaves" 1) in
  let idle = kv l "idle" 100000 in
  nsl := Array.init n (fun i ->
    { sst = (if !balanced then Bal (bal_init (zi (saddr i)) (zi 1) (zi idle) false true) else Su (su_init !v (zi (saddr i)) (zi idle)));
      srx = []; sq1 = cq_init (zi !q1size); sq2 = cq_init (zi !q2size) });
  mst := if !balanced then Bal (bal_init (zi 1) (zi (saddr 0)) (zi idle) true true)
         else Up (pu_init (List.init n (fun i -> zi (saddr i))))

let deliver who f =
  incr frame_no;
  let lost = Hashtbl.mem lose !frame_no and dup = Hashtbl.mem dupf !frame_no in
  let lost = if (not lost) && Hashtbl.mem lose_next who && List.length f > 6 && List.nth f 0 = zi 0x68 && (iz (List.nth f 4)) land 0x4f = 0x43
             then (Hashtbl.remove lose_next who; true) else lost in
  Printf.printf "tx %s %d %s%s\n" (if who < 0 then "m" else Printf.sprintf "s%d" (who + 1)) !frame_no (hex_of_bytes f)
    (if lost then " lost" else if dup then " dup" else "");
  if not lost then
    for _ = 1 to (if dup then 2 else 1) do
      if who < 0 then Array.iter (fun s -> s.srx <- s.srx @ f) !nsl else mrx := !mrx @ f
    done

let asdu_or_null d = if List.length d < asdu_hdr then None else Some d

let net_step who =
  if who < 0 then begin
    let outs = (match !mst with
      | Bal b ->
          let b0 = bal_with b b.b_p b.b_s (cq_abs !mq) in
          let n0 = List.length b0.b_q in
          let ((b', rest), o) = bal_run !v !c (zi !now) b0 !mrx in mst := Bal b'; mrx := rest;
          if List.length b'.b_q < n0 then mq := snd (cq_dequeue !mq);
          o
      | Up p -> let ((p', rest), o) = pu_run !v !c (zi !now) p !mrx in mst := Up p'; mrx := rest; o
      | _ -> []) in
    let txs = ref [] in
    List.iter (fun o -> match o with
      | OTx f -> txs := f :: !txs
      | OInd (_, d) -> (match asdu_or_null d with
          | Some d -> Printf.printf "mdeliver a=0 %s\n" (hex_of_bytes d)
          | None -> if not !v.fd then print_endline "mdeliver a=0 NULL")
      | OUd (a, d) -> (match asdu_or_null d with
          | Some d -> Printf.printf "mdeliver a=%d %s\n" (iz a) (hex_of_bytes d)
          | None -> if not !v.fd then Printf.printf "mdeliver a=%d NULL\n" (iz a))
      | OLs (a, s) -> Printf.printf "mls a=%d %d\n" (iz a) (iz s)
      | _ -> ()) outs;
    List.iter (deliver (-1)) (List.rev !txs)
  end else begin
    let s = !nsl.(who) in
    let outs = (match s.sst with
      | Bal b ->
          let b0 = bal_with b b.b_p b.b_s (cq_abs s.sq1 @ cq_abs s.sq2) in
          let n0 = List.length b0.b_q in
          let ((b', rest), o) = bal_run !v !c (zi !now) b0 s.srx in
          s.sst <- Bal b'; s.srx <- rest;
          if List.length b'.b_q < n0 then
            (if not (cq_is_empty s.sq1) then s.sq1 <- snd (cq_dequeue s.sq1) else s.sq2 <- snd (cq_dequeue s.sq2));
          o
      | Su u ->
          (* the secondary station with the literal class-queue rings (Link/LinkSecQ.v: su_run_r, proved to be su_run on the
             abstraction of the rings): a class request dequeues, the access-demand bit is `not isEmpty` *)
          let ((x', rest), o) = su_run_r !v !c (zi !now) { sq_s = u; sq_1 = s.sq1; sq_2 = s.sq2 } s.srx in
          s.sst <- Su x'.sq_s; s.srx <- rest; s.sq1 <- x'.sq_1; s.sq2 <- x'.sq_2;
          o
      | _ -> []) in
    let txs = ref [] in
    List.iter (fun o -> match o with
      | OTx f -> txs := f :: !txs
      | OInd (_, d) -> (match asdu_or_null d with Some d -> Printf.printf "sdeliver s%d %s\n" (who + 1) (hex_of_bytes d) | None -> ())
      | OLs (_, x) -> Printf.printf "sls s%d %d\n" (who + 1) (iz x)
      | _ -> ()) outs;
    List.iter (deliver who) (List.rev !txs)
  end

let station_of tok = if tok = "m" then -1 else (try let i = int_of_string (String.sub tok 1 (String.length tok - 1)) - 1 in
                                                   if i >= 0 && i < Array.length !nsl then i else -2 with _ -> -2)
let net_cmd cmd line =
  let w = words line in
  match cmd with
  | "lose" | "dupf" -> List.iter (fun t -> Hashtbl.replace (if cmd = "lose" then lose else dupf) (int_of_string t) ()) (List.tl w)
  | "tick" -> now := !now + int_of_string (List.nth w 1)
  | _ ->
    let who = station_of (try List.nth w 1 with _ -> "") in
    let hex () = bytes_of_hex (try List.nth w 2 with _ -> "-") in
    if who = -2 then print_endline ("? " ^ line) else
    (match cmd with
     | "step" -> net_step who
     | ("enq1" | "enq2") when who >= 0 ->
         let d = hex () in
         if List.length d < asdu_hdr then print_endline "? bad asdu" else begin
           let s = !nsl.(who) in
           let c1 = cmd = "enq1" in
           let cur = if c1 then s.sq1 else s.sq2 in
           Printf.printf "enq s%d c=%d full=%d\n" (who + 1) (if c1 then 1 else 2) (b2i (cq_is_full cur));
           let nq = cq_enqueue cur d in
           if c1 then s.sq1 <- nq else s.sq2 <- nq
         end
     | "msend" when who >= 0 ->
         let d = hex () in
         if List.length d < asdu_hdr then print_endline "? bad asdu" else begin
           (match !mst with
            | Bal _ -> mq := cq_enqueue !mq d; Printf.printf "msend s%d ok=1\n" (who + 1)
            | Up p ->
                let a = zi (saddr who) in
                let ready = List.exists (fun s -> s.sc_addr = a && not (s.sc_r1 || s.sc_r2 || s.sc_has)) p.pu_slaves in
                if ready then (let (p', _) = pu_send_confirmed p a d in mst := Up p');
                Printf.printf "msend s%d ok=%d\n" (who + 1) (b2i ready)
            | _ -> ())
         end
     | "poll" when who >= 0 -> (match !mst with Up p -> let (p', _) = pu_request p (zi (saddr who)) false in mst := Up p' | _ -> ())
     | "flush" when who >= 0 -> let s = !nsl.(who) in s.sq1 <- cq_flush s.sq1; s.sq2 <- cq_flush s.sq2
     | "losenext" -> Hashtbl.replace lose_next who ()
     | "mtest" when who >= 0 ->
         (match !mst with
          | Up p -> mst := Up (pu_test p (zi (saddr who)))
          | Bal b -> mst := Bal (bal_with b (pb_with_test b.b_p true) b.b_s b.b_q)
          | _ -> ())
     | "inject" -> if who < 0 then mrx := !mrx @ hex () else !nsl.(who).srx <- !nsl.(who).srx @ hex ()
     | _ -> print_endline ("? " ^ line))

let () =
  iter_lines (fun line ->
    match words line with
    | "---" :: _ -> print_endline line
    | [] -> ()
    | "cfg" :: _ -> if List.mem_assoc "mode" (kvs line) then net_cfg line else (net_on := false; ll_cfg line)
    | cmd :: _ ->
        if !net_on then net_cmd cmd line
        else if !st = NoSt then print_endline "? no station" else ll_cmd cmd line)
