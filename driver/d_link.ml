(* runner for the CS101 link-layer models; same script language and trace lines as harness/h_ll.c
   (cfg kind=...) and harness/h_cs101.c (cfg mode=...) *)
open Model_link
open Zutil

let kvs line = List.filter_map (fun w -> match String.index_opt w '=' with
  | Some i -> Some (String.sub w 0 i, String.sub w (i + 1) (String.length w - i - 1)) | None -> None) (words line)
let kv l k d = try int_of_string (List.assoc k l) with _ -> d
let kvstr l k d = try List.assoc k l with _ -> d
let b2i b = if b then 1 else 0
let variant_of s = let h c = String.contains s c in
  { fa = h 'a'; fb = h 'b'; fc_ = h 'c'; fd = h 'd'; fe = h 'e'; ff = h 'f' }

let print_out o = match o with
  | ORx m -> Printf.printf "rxmsg %s\n" (hex_of_bytes m)
  | OTx f -> Printf.printf "tx %s\n" (hex_of_bytes f)
  | OInd (bc, d) -> Printf.printf "ind bc=%d %s\n" (b2i bc) (hex_of_bytes d)
  | ORcu b -> Printf.printf "rcu %d\n" (b2i b)
  | OLs (a, s) -> Printf.printf "ls a=%d %d\n" (iz a) (iz s)
  | OUd (a, d) -> Printf.printf "ud a=%d %s\n" (iz a) (hex_of_bytes d)
  | OAcd a -> Printf.printf "acd a=%d\n" (iz a)

(* ------------------------------------------------------------------ single station (h_ll) *)
type station = NoSt | Su of su | Bal of bal | Up of pu
let st = ref NoSt
let v = ref (variant_of "")
let c = ref { alen = zi 1; single_ack = false; t_ack = zi 200; t_rep = zi 1000; t_ls = zi 5000 }
let now = ref 1000
let rx = ref ([] : z list)
let slaves = ref ([] : int list)

let dump () = match !st with
  | NoSt -> ()
  | Su s -> Printf.printf "st us ls=%d efcb=%d uds=%d\n" (iz s.su_ls) (b2i s.su_efcb) (iz s.su_udsz)
  | Bal b -> let p = b.b_p in
      Printf.printf "st bal ls=%d ps=%d w=%d nfcb=%d test=%d efcb=%d\n" (iz p.pb_ls) (iz p.pb_ps) (b2i p.pb_wait) (b2i p.pb_nfcb) (b2i p.pb_test) (b2i b.b_s)
  | Up p ->
      Printf.printf "st up cur=%d idx=%d bc=%d" (iz p.pu_cur) (iz p.pu_idx) (match p.pu_bc with Some _ -> 1 | None -> 0);
      List.iter (fun s -> Printf.printf " [a=%d ls=%d ps=%d w=%d nfcb=%d has=%d r1=%d r2=%d test=%d]" (iz s.sc_addr) (iz s.sc_ls) (iz s.sc_ps)
        (b2i s.sc_wait) (b2i s.sc_nfcb) (b2i s.sc_has) (b2i s.sc_r1) (b2i s.sc_r2) (b2i s.sc_test)) p.pu_slaves;
      print_newline ()

let run_once () = match !st with
  | NoSt -> ()
  | Su s -> let ((s', rest), o) = su_run !v !c (zi !now) s !rx in st := Su s'; rx := rest; List.iter print_out o
  | Bal b -> let ((b', rest), o) = bal_run !v !c (zi !now) b !rx in st := Bal b'; rx := rest; List.iter print_out o
  | Up p -> let ((p', rest), o) = pu_run !v !c (zi !now) p !rx in st := Up p'; rx := rest; List.iter print_out o

let ll_cfg line =
  let l = kvs line in
  v := variant_of (kvstr l "fix" "");
  c := { alen = zi (kv l "al" 1); single_ack = kv l "sc" 0 <> 0; t_ack = zi (kv l "tack" 200); t_rep = zi (kv l "trep" 1000); t_ls = zi (kv l "tls" 5000) };
  now := kv l "t" 1000; rx := [];
  let addr = kv l "addr" 1 in
  (match kvstr l "kind" "us" with
   | "us" -> st := Su (su_init !v (zi addr) (zi (kv l "idle" 500)))
   | "bal" -> st := Bal (bal_init (zi addr) (zi (kv l "other" 2)) (zi (kv l "idle" 5000)) (kv l "dir" 0 <> 0) (kv l "indret" 1 <> 0))
   | _ ->
       let sl = List.filter (fun x -> x <> "") (String.split_on_char ',' (kvstr l "slaves" "")) in
       slaves := List.map int_of_string sl;
       st := Up (pu_init (List.map (fun a -> zi a) !slaves)));
  dump ()

let last_word line = match List.rev (words line) with w :: _ -> w | [] -> ""

let ll_cmd cmd line =
  let l = kvs line in
  let addr = kv l "a" (match !slaves with a :: _ -> a | [] -> 0) in
  let hex () = bytes_of_hex (last_word line) in
  let ok = ref true in
  (match cmd, !st with
   | "feed", _ -> rx := !rx @ hex ()
   | "rx", _ -> rx := !rx @ hex (); run_once ()
   | "run", _ -> run_once ()
   | "tick", _ -> now := !now + int_of_string (last_word line); run_once ()
   | "enq1", Su s -> st := Su (su_with_q s (s.su_q1 @ [hex ()]) s.su_q2)
   | "enq2", Su s -> st := Su (su_with_q s s.su_q1 (s.su_q2 @ [hex ()]))
   | "enq1", Bal b | "send", Bal b -> st := Bal (bal_with b b.b_p b.b_s (b.b_q @ [hex ()]))
   | "enq1", _ | "enq2", _ -> ()
   | "send", Up p -> let (p', r) = pu_send_confirmed p (zi addr) (hex ()) in st := Up p'; Printf.printf "ret %d\n" (b2i r)
   | "send", _ -> ()
   | "bcast", Up p -> let (p', r) = pu_send_broadcast p (hex ()) in st := Up p'; Printf.printf "ret %d\n" (b2i r)
   | "poll1", Up p -> let (p', r) = pu_request p (zi addr) true in st := Up p'; Printf.printf "ret %d\n" (b2i r)
   | "poll2", Up p -> let (p', r) = pu_request p (zi addr) false in st := Up p'; Printf.printf "ret %d\n" (b2i r)
   | "test", Up p -> st := Up (pu_test p (zi addr))
   | "test", Bal b -> st := Bal (bal_with b (pb_with_test b.b_p true) b.b_s b.b_q)
   | "test", _ -> ()
   | _ -> ok := false; print_endline ("? " ^ line));
  if !ok then dump ()

let () =
  iter_lines (fun line ->
    match words line with
    | "---" :: _ -> print_endline line
    | [] -> ()
    | "cfg" :: _ -> ll_cfg line
    | cmd :: _ -> if !st = NoSt then print_endline "? no station" else ll_cmd cmd line)
