(* runner for Cs104/Lifecycle.v (C18): reads the scripts of harness/h_cs104s.c and prints the lifecycle lines
   (`req`, `ev`, `closed`, `open`) in the order the C harness prints them.
   model-only line:  #model n=<table size> fix=<0|1>   (ignored by the C harness apart from a `?` echo)
   U-frames fed with `rx c<i> <hex>` are classified; every other `rx` payload is MBad by construction of the scripts.
   Lines the model has no use for (adv, enq, rxi, rxs, poke, dump, slots, halnull, running) are skipped. *)
open Model_life
open Zutil

let tsize = ref 100
let fix = ref false
let st = ref (init (nat_of_int 100) false)
let c_mode = ref 0 and c_maxconn = ref 0 and c_setmax = ref 0
let groups : group list ref = ref []             (* the one-field record `group` is extracted as its field type *)
let ids : (int, int) Hashtbl.t = Hashtbl.create 64   (* script index -> model id *)
let idx_of : (int, int) Hashtbl.t = Hashtbl.create 64
let ips : (int, string) Hashtbl.t = Hashtbl.create 64
let peers : (int, string) Hashtbl.t = Hashtbl.create 64   (* model id -> peer address string *)
let nlog = ref 0 and nreq = ref 0
let reported : (int, unit) Hashtbl.t = Hashtbl.create 64
let dead_script = ref false

let l2z (s : string) : z list = List.init (String.length s) (fun i -> zi (Char.code s.[i]))
let evname = function 0 -> "OPENED" | 1 -> "CLOSED" | 2 -> "ACTIVATED" | _ -> "DEACTIVATED"
let cnum c = int_of_string (String.sub c 1 (String.length c - 1))
let idx id = try Hashtbl.find idx_of id with Not_found -> -1

let reset () =
  tsize := 100; fix := false; st := init (nat_of_int 100) false;
  c_mode := 0; c_maxconn := 0; c_setmax := 0; groups := [];
  Hashtbl.reset peers; Hashtbl.reset ids; Hashtbl.reset idx_of; Hashtbl.reset ips; Hashtbl.reset reported;
  nlog := 0; nreq := 0; dead_script := false

let apply o = st := step !st o

let strip_port (peer : string) : string =
  if String.length peer > 0 && peer.[0] = '[' then
    (match String.index_opt peer ']' with Some j -> String.sub peer 1 (j - 1) | None -> peer)
  else (match String.index_opt peer ':' with Some j -> String.sub peer 0 j | None -> peer)

let create_if_needed () =
  if not !st.v_exists then begin
    let m = (match !c_mode with 0 -> LSingle | 1 -> LConn | _ -> LMulti) in
    let mx = if !c_maxconn > 0 then Some (zi !c_maxconn) else if !c_setmax <> 0 then Some (zi !c_maxconn) else None in
    apply (OCreate (m, mx))
  end

(* print what one tick added: the request callback first, then the events *)
let print_new () =
  let reqs = !st.v_reqs in
  List.iteri (fun i id -> if i >= !nreq then
      Printf.printf "req %s ret=%d\n" (try Hashtbl.find ips (idx (iz id)) with Not_found -> "?") (if !st.v_reqret then 1 else 0)) reqs;
  nreq := List.length reqs;
  let lg = !st.v_log in
  List.iteri (fun i (id, e) -> if i >= !nlog then Printf.printf "ev c%d %s\n" (idx (iz id)) (evname (iz e))) lg;
  nlog := List.length lg

let print_closed () =
  let d = List.sort_uniq compare (List.map (fun id -> idx (iz id)) !st.v_dead) in
  List.iter (fun i -> if not (Hashtbl.mem reported i) then begin Hashtbl.replace reported i (); Printf.printf "closed c%d\n" i end) d

(* the redundancy group an address selects is resolved when the connection is accepted (getMatchingRedundancyGroup):
   refresh the pending connections' groups from the groups configured now *)
let resolve (peer : string) : z option =
  if !c_mode = 2 then match_group !groups (parse_ip (peer_ip (l2z peer))) Z0 None else Some Z0
let refresh_backlog () =
  st := { !st with v_backlog = List.map (fun (id, g) ->
            (id, (match Hashtbl.find_opt peers (iz id) with Some p -> resolve p | None -> g))) !st.v_backlog }

let classify (hex : string) : lmsg =
  match String.lowercase_ascii hex with
  | "680407000000" -> MStart
  | "680413000000" -> MStop
  | "680443000000" -> MTest
  | "680483000000" | "68040b000000" | "680423000000" | "680403000000" -> MIgnore
  | _ -> MBad

let kvs toks f = List.iter (fun t -> match String.split_on_char '=' t with [k; v] -> (try f k (int_of_string v) with _ -> ()) | _ -> ()) toks

let () =
  iter_lines (fun line ->
    match words line with
    | "---" :: _ -> print_endline line; reset ()
    | _ when !dead_script -> ()
    | "#model" :: toks ->
        kvs toks (fun k v -> if k = "n" then tsize := v else if k = "fix" then fix := (v <> 0));
        st := init (nat_of_int !tsize) !fix
    | "cfg" :: toks ->
        kvs toks (fun k v ->
          if k = "mode" then c_mode := v else if k = "maxconn" then c_maxconn := v else if k = "setmax" then c_setmax := v
          else if k = "reqret" then apply (OReqRet (v <> 0)))
    | ["group"; ipl] ->
        create_if_needed ();
        if !c_mode = 2 then begin
          let g : group = if ipl = "-" then None else Some (List.map (fun s -> parse_ip (l2z s)) (String.split_on_char ',' ipl)) in
          groups := !groups @ [g]
        end
    | ["create"] -> create_if_needed ()
    | ["start"] ->
        create_if_needed ();
        if !c_mode = 2 && !groups = [] then groups := [None];      (* initializeRedundancyGroups: a catch-all group *)
        apply OStart
    | ["stop"] -> if !st.v_exists then begin apply OStop; Printf.printf "open %d\n" (iz !st.v_open) end
    | ["destroy"] -> if !st.v_exists then begin apply ODestroy; groups := [] end
    | ["connect"; c; peer] ->
        let ci = cnum c in
        let g = resolve peer in
        let id = iz !st.v_next in
        Hashtbl.replace peers id peer;
        Hashtbl.replace ids ci id; Hashtbl.replace idx_of id ci; Hashtbl.replace ips ci (strip_port peer);
        apply (OConnect g)
    | "tick" :: rest ->
        let n = (match rest with [x] -> int_of_string x | _ -> 1) in
        for _ = 1 to n do
          if !st.v_exists && not !dead_script then begin
            refresh_backlog (); apply OTick; print_new ();
            if !st.v_crashed then begin print_endline "CRASH"; dead_script := true end
          end
        done;
        if not !dead_script then begin
          print_closed ();
          if !st.v_exists then Printf.printf "open %d\n" (iz !st.v_open)
        end
    | ["rx"; c; hex] -> (match Hashtbl.find_opt ids (cnum c) with Some id -> apply (OFeed (zi id, classify hex)) | None -> ())
    | ["peerclose"; c] -> (match Hashtbl.find_opt ids (cnum c) with Some id -> apply (OPeerClose (zi id)) | None -> ())
    | ["wmode"; c; m] -> (match Hashtbl.find_opt ids (cnum c) with Some id -> apply (OWriteFail (zi id, m = "1")) | None -> ())
    | ["appclose"; c] -> (match Hashtbl.find_opt ids (cnum c) with Some id -> apply (OAppClose (zi id)) | None -> ())
    | _ -> ())
