(* runner for the C19 models: same script language as harness/h_time.c *)
open Model_c19
open Zutil
open Time_table
let () =
  iter_lines (fun line ->
    match words line with
    | ["call"; name; hex; arg] ->
        let iarg = if arg = "-" then 0 else int_of_string arg in
        let (b, r) = dispatch name (bytes_of_hex hex) iarg in
        Printf.printf "%s %s\n" (hex_of_bytes b) (match r with None -> "-" | Some v -> string_of_int (iz v))
    | ["civil"; t] ->
        let t = zi (int_of_string t) in
        Printf.printf "%d %d %d %d %d %d\n" (iz (gm_sec t)) (iz (gm_min t)) (iz (gm_hour t)) (iz (gm_mday t)) (iz (gm_mon t)) (iz (gm_year t))
    | [] -> ()
    | _ -> print_endline "?")
