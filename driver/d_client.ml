(* runner for Cs104/Client.v: executes the scripts of harness/h_cs104c.c and prints the same trace lines
   (raw out / raw in / ev / cb asdu / ret / tx / st, and the `.` end-of-command marker) *)
open Model_client
open Zutil

let defcfg () = { cc_k = zi 12; cc_w = zi 8; cc_t1 = zi 15; cc_t2 = zi 10; cc_t3 = zi 20; cc_cot = zi 2; cc_ca = zi 2; cc_ioa = zi 3; cc_cav = zi 2 }
let g = ref (defcfg ())
let c = ref cli_idle
let created = ref false
let now = ref 1000000
let peer_ns = ref 0
let peer_seen = ref 0
let txacc = Buffer.create 256
let evname = function 0 -> "OPENED" | 1 -> "CLOSED" | 2 -> "STARTDT_CON" | 3 -> "STOPDT_CON" | _ -> "FAILED"

let count_i (bytes : z list) =
  let arr = Array.of_list (List.map iz bytes) in
  let n = Array.length arr in
  let p = ref 0 in
  while !p + 2 <= n do
    let l = arr.(!p + 1) in
    if !p + 2 < n && (arr.(!p + 2) land 1) = 0 && l >= 4 then peer_seen := (!peer_seen + 1) mod 32768;
    if l = 0 then p := n else p := !p + 2 + l
  done

(* `ret` lines are printed by the harness at once, everything else is buffered until the end of the command *)
let emit_all (os : cobs list) =
  List.iter (fun o -> match o with CRet r -> Printf.printf "ret %d\n" (if r then 1 else 0) | _ -> ()) os;
  List.iter (fun o -> match o with
    | CTx (b, d) -> Printf.printf "raw out %s\n" (hex_of_bytes b); if d then begin Buffer.add_string txacc (hex_of_bytes b); count_i b end
    | CIn b -> Printf.printf "raw in %s\n" (hex_of_bytes b)
    | CEv e -> Printf.printf "ev %s\n" (evname (iz e))
    | CCb a -> Printf.printf "cb asdu %s\n" (hex_of_bytes a)
    | CRet _ -> ()) os

let flush_tx () = if Buffer.length txacc > 0 then begin Printf.printf "tx %s\n" (Buffer.contents txacc); Buffer.clear txacc end
let apply (r : cli * cobs list) = let (c', os) = r in c := c'; emit_all os
let kv tok = match String.split_on_char '=' tok with [k; v] -> (try Some (k, int_of_string v) with _ -> None) | _ -> None
let md x = ((x mod 32768) + 32768) mod 32768

let reset () = g := defcfg (); c := cli_idle; created := false; now := 1000000; peer_ns := 0; peer_seen := 0; Buffer.clear txacc

let () =
  iter_lines (fun line ->
    match words line with
    | "---" :: _ -> reset (); print_endline line
    | w ->
      (match w with
       | "cfg" :: rest ->
           List.iter (fun t -> match kv t with
             | Some ("k", v) -> g := { !g with cc_k = zi v } | Some ("w", v) -> g := { !g with cc_w = zi v }
             | Some ("t1", v) -> g := { !g with cc_t1 = zi v } | Some ("t2", v) -> g := { !g with cc_t2 = zi v }
             | Some ("t3", v) -> g := { !g with cc_t3 = zi v } | Some ("cot", v) -> g := { !g with cc_cot = zi v }
             | Some ("ca", v) -> g := { !g with cc_ca = zi v; cc_cav = zi v } | Some ("ioa", v) -> g := { !g with cc_ioa = zi v }
             | _ -> ()) rest
       | "connect" :: rest ->
           created := true; peer_ns := 0; peer_seen := 0;
           apply (cconnect !g (zi !now) !c (rest <> ["refuse"]))
       | "step" :: rest ->
           let n = (match rest with [x] -> int_of_string x | _ -> 1) in
           for _ = 1 to n do apply (cstep !g (zi !now) !c) done
       | ["adv"; ms] -> now := !now + int_of_string ms
       | ["rx"; hex] -> if !created then c := { !c with cavail = !c.cavail @ bytes_of_hex hex }
       | "rxi" :: hex :: rest ->
           let d1 = (match rest with x :: _ -> int_of_string x | [] -> 0) in
           let d2 = (match rest with _ :: y :: _ -> int_of_string y | _ -> 0) in
           let ns = md (!peer_ns + d1) and nr = md (!peer_seen + d2) in
           let a = bytes_of_hex hex in
           let f = List.map zi [0x68; (4 + List.length a) land 255; (ns mod 128) * 2; ns / 128; (nr mod 128) * 2; nr / 128] @ a in
           if d1 = 0 then peer_ns := (!peer_ns + 1) mod 32768;
           if !created then c := { !c with cavail = !c.cavail @ f }
       | "rxs" :: rest ->
           let d2 = (match rest with x :: _ -> int_of_string x | [] -> 0) in
           let nr = md (!peer_seen + d2) in
           if !created then c := { !c with cavail = !c.cavail @ List.map zi [0x68; 4; 1; 0; (nr mod 128) * 2; nr / 128] }
       | ["cbsend"; n] -> c := { !c with ccbsend = zi (int_of_string n) }
       | ["peerclose"] -> if !created then c := { !c with cpclosed = true }
       | ["wmode"; m] -> if !created then c := { !c with cwmode = zi (int_of_string m) }
       | ["startdt"] -> if !created then apply (cstartdt !c)
       | ["stopdt"] -> if !created then apply (cstopdt (zi !now) !c)
       | ["send"; hex] -> if !created then apply (capp_send (zi !now) !c (bytes_of_hex hex))
       | ["ic"; ca; qoi] ->
           let le n v = if n = 1 then [v land 255] else if n = 2 then [v land 255; (v lsr 8) land 255] else [v land 255; (v lsr 8) land 255; (v lsr 16) land 255] in
           let a = [100; 1; 6] @ (if iz !g.cc_cot = 2 then [0] else []) @ le (iz !g.cc_ca) (int_of_string ca) @ le (iz !g.cc_ioa) 0 @ [int_of_string qoi land 255] in
           if !created then apply (capp_send (zi !now) !c (List.map zi a))
       | ["rd"; ca; ioa] ->
           let le n v = if n = 1 then [v land 255] else if n = 2 then [v land 255; (v lsr 8) land 255] else [v land 255; (v lsr 8) land 255; (v lsr 16) land 255] in
           let a = [102; 1; 5] @ (if iz !g.cc_cot = 2 then [0] else []) @ le (iz !g.cc_ca) (int_of_string ca) @ le (iz !g.cc_ioa) (int_of_string ioa) in
           if !created then apply (capp_send (zi !now) !c (List.map zi a))
       | ["close"] -> if !created then apply (cclose !g (zi !now) !c)
       | ["poke"; a; b] ->
           (match kv a, kv b with
            | Some (_, va), Some (_, vb) -> if !created then begin c := { !c with cvs = zi va; cvr = zi vb }; peer_seen := va; peer_ns := vb end
            | _ -> ())
       | ["dump"] ->
           if !created then begin
             let cc = !c in
             let cnt = List.length cc.ckb in
             Printf.printf "st state=%d run=%d vs=%d vr=%d unconf=%d t2trig=%d outtest=%d rpos=%d k=" (iz cc.cstate) (if cc.running then 1 else 0) (iz cc.cvs) (iz cc.cvr)
               (iz cc.cunconf) (if cc.ct2trig then 1 else 0) (iz cc.couttest) (iz cc.crs.rpos);
             for i = 1 to cnt do Printf.printf "%d," (md (iz cc.cvs - cnt + i)) done;
             print_newline () end
       | [] -> ()
       | _ -> print_endline ("? " ^ line));
      flush_tx ();
      print_endline ".")
