(* runner for Cs104/Server.v: executes the scripts of harness/h_cs104s.c (single connection at a time,
   SINGLE_REDUNDANCY_GROUP, raw=0) and prints the same trace lines *)
open Model_server
open Zutil

let g = ref { c_k = zi 12; c_w = zi 8; c_t1 = zi 15; c_t2 = zi 10; c_t3 = zi 20; c_interrog = false; c_hret = true;
              c_burst = zi 0; c_bsize = zi 10; c_term = false; c_reqret = true }
let s = ref server_init
let now = ref 1000000
let ips : (int, string) Hashtbl.t = Hashtbl.create 16
let peer_ns : (int, int) Hashtbl.t = Hashtbl.create 16
let peer_seen : (int, int) Hashtbl.t = Hashtbl.create 16
let txacc : (int, Buffer.t) Hashtbl.t = Hashtbl.create 16
let started = ref false

let reset () =
  g := { c_k = zi 12; c_w = zi 8; c_t1 = zi 15; c_t2 = zi 10; c_t3 = zi 20; c_interrog = false; c_hret = true;
         c_burst = zi 0; c_bsize = zi 10; c_term = false; c_reqret = true };
  s := server_init; now := 1000000; started := false;
  Hashtbl.reset ips; Hashtbl.reset peer_ns; Hashtbl.reset peer_seen; Hashtbl.reset txacc

let cnum c = int_of_string (String.sub c 1 (String.length c - 1))
let evname = function 0 -> "OPENED" | 1 -> "CLOSED" | 2 -> "ACTIVATED" | _ -> "DEACTIVATED"
let geti tbl k = try Hashtbl.find tbl k with Not_found -> 0

let count_i (bytes : z list) ci =
  (* count I-frames in what was written (each write is one complete APDU) *)
  let arr = Array.of_list (List.map iz bytes) in
  let n = Array.length arr in
  let p = ref 0 in
  while !p + 2 <= n do
    let l = arr.(!p + 1) in
    if !p + 2 < n && (arr.(!p + 2) land 1) = 0 && l >= 4 then Hashtbl.replace peer_seen ci ((geti peer_seen ci + 1) mod 32768);
    if l = 0 then p := n else p := !p + 2 + l
  done

let emit (o : obs) =
  match o with
  | OTx (c, b) ->
      let ci = iz c in
      let buf = (try Hashtbl.find txacc ci with Not_found -> let b = Buffer.create 64 in Hashtbl.replace txacc ci b; b) in
      Buffer.add_string buf (hex_of_bytes b); count_i b ci
  | OEv (c, e) -> Printf.printf "ev c%d %s\n" (iz c) (evname (iz e))
  | OReq r ->
      (* the request callback sees the IP of the connection being accepted: the oldest pending one *)
      ()
  | OCbAsdu (c, a) -> Printf.printf "cb asdu c%d asdu=%s\n" (iz c) (hex_of_bytes a)
  | OCbInterrog (c, q, a) -> Printf.printf "cb interrogation c%d qoi=%d asdu=%s\n" (iz c) (iz q) (hex_of_bytes a)
  | OSend (c, w, r) ->
      let w = iz w in
      if w = -1 then Printf.printf "send c%d actcon ret=%d\n" (iz c) (if r then 1 else 0)
      else if w = -2 then Printf.printf "send c%d actterm ret=%d\n" (iz c) (if r then 1 else 0)
      else Printf.printf "send c%d reply=%d ret=%d\n" (iz c) w (if r then 1 else 0)
  | ORxStop _ -> ()
  | OClosed _ -> ()

let flush_tx () =
  let keys = List.sort compare (Hashtbl.fold (fun k _ acc -> k :: acc) txacc []) in
  List.iter (fun k -> let b = Hashtbl.find txacc k in if Buffer.length b > 0 then Printf.printf "tx c%d %s\n" k (Buffer.contents b)) keys;
  Hashtbl.reset txacc

let do_step (x : stim) =
  (* OReq needs the ip of the head of the pending list before the step *)
  let head_ip = (match !s.pending with id :: _ -> (try Hashtbl.find ips (iz id) with Not_found -> "?") | [] -> "?") in
  let (s', out) = step !g (zi !now) !s x in
  s := s';
  List.iter (fun o -> match o with OReq r -> Printf.printf "req %s ret=%d\n" head_ip (if r then 1 else 0) | _ -> emit o) out

let cur_is ci = match !s.con with Some c -> iz c.cid = ci | None -> false

let kv tok = match String.split_on_char '=' tok with [k; v] -> Some (k, int_of_string v) | _ -> None

let () =
  iter_lines (fun line ->
    (match words line with
    | "---" :: _ -> reset (); print_endline line
    | "cfg" :: rest ->
        List.iter (fun t -> match kv t with
          | Some ("k", v) -> g := { !g with c_k = zi v }
          | Some ("w", v) -> g := { !g with c_w = zi v }
          | Some ("t1", v) -> g := { !g with c_t1 = zi v }
          | Some ("t2", v) -> g := { !g with c_t2 = zi v }
          | Some ("t3", v) -> g := { !g with c_t3 = zi v }
          | Some ("handlers", v) -> g := { !g with c_interrog = (v land 1) = 1 }
          | Some ("hret", v) -> g := { !g with c_hret = v <> 0 }
          | Some ("burst", v) -> g := { !g with c_burst = zi v }
          | Some ("bsize", v) -> g := { !g with c_bsize = zi v }
          | Some ("term", v) -> g := { !g with c_term = v <> 0 }
          | Some ("reqret", v) -> g := { !g with c_reqret = v <> 0 }
          | _ -> ()) rest
    | ["start"] -> started := true; print_endline "running 1"
    | ["connect"; c; peer] ->
        let ci = cnum c in
        let ip = (match String.index_opt peer ':' with Some i -> String.sub peer 0 i | None -> peer) in
        Hashtbl.replace ips ci ip; Hashtbl.replace peer_ns ci 0; Hashtbl.replace peer_seen ci 0;
        do_step (SConnect (zi ci))
    | "tick" :: rest ->
        let n = (match rest with [x] -> int_of_string x | _ -> 1) in
        for _ = 1 to n do if !started then do_step STick done;
        flush_tx ();
        List.iter (fun c -> Printf.printf "closed c%d\n" (iz c)) !s.to_close;
        s := { !s with to_close = [] };
        if !started then Printf.printf "open %d\n" (iz !s.opencnt)
    | ["adv"; ms] -> now := !now + int_of_string ms
    | ["rx"; c; hex] -> if cur_is (cnum c) then do_step (SRx (bytes_of_hex hex))
    | "rxi" :: c :: hex :: rest ->
        let ci = cnum c in
        let d1 = (match rest with x :: _ -> int_of_string x | [] -> 0) in
        let d2 = (match rest with _ :: y :: _ -> int_of_string y | _ -> 0) in
        let md x = ((x mod 32768) + 32768) mod 32768 in
        let ns = md (geti peer_ns ci + d1) and nr = md (geti peer_seen ci + d2) in
        let a = bytes_of_hex hex in
        let f = List.map zi [0x68; 4 + List.length a; (ns mod 128) * 2; ns / 128; (nr mod 128) * 2; nr / 128] @ a in
        if d1 = 0 then Hashtbl.replace peer_ns ci ((geti peer_ns ci + 1) mod 32768);
        if cur_is ci then do_step (SRx f)
    | "rxs" :: c :: rest ->
        let ci = cnum c in
        let d2 = (match rest with x :: _ -> int_of_string x | [] -> 0) in
        let nr = (((geti peer_seen ci + d2) mod 32768) + 32768) mod 32768 in
        if cur_is ci then do_step (SRx (List.map zi [0x68; 4; 1; 0; (nr mod 128) * 2; nr / 128]))
    | ["enq"; hex] -> if !started then do_step (SEnq (bytes_of_hex hex))
    | ["peerclose"; c] -> if cur_is (cnum c) then do_step SPeerClose
    | ["wmode"; c; m] -> if cur_is (cnum c) then do_step (SWmode (zi (int_of_string m)))
    | ["poke"; c; a; b] ->
        let ci = cnum c in
        (match kv a, kv b with
         | Some (_, va), Some (_, vb) ->
             if cur_is ci then begin do_step (SPoke (zi va, zi vb)); Hashtbl.replace peer_seen ci va; Hashtbl.replace peer_ns ci vb end
         | _ -> ())
    | ["dump"] -> ()
    | [] -> ()
    | _ -> print_endline ("? " ^ line));
    flush_tx ())
